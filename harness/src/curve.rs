//! X25519, Ed25519, field / scalar / group arithmetic
use crate::codec::*;
use cryptoxide::curve25519::{curve25519, curve25519_base, Fe, Ge, GePartial, GePrecomp, Scalar};
use cryptoxide::{ed25519, x25519};
use std::convert::TryFrom;

fn a32(v: &[u8]) -> [u8; 32] {
    <[u8; 32]>::try_from(v).expect("TYPE")
}
fn a64(v: &[u8]) -> [u8; 64] {
    <[u8; 64]>::try_from(v).expect("TYPE")
}

/// point spec: Z | B:<scalar32 hex> | D:<bytes32 hex> (decode with Ge::from_bytes)
fn point(spec: &str) -> Option<Ge> {
    if spec == "Z" {
        return Some(Ge::ZERO);
    }
    if let Some(s) = spec.strip_prefix("B:") {
        return Some(Ge::scalarmult_base(&Scalar::from_bytes(&a32(&expand(s)))));
    }
    if let Some(s) = spec.strip_prefix("D:") {
        return Ge::from_bytes(&a32(&expand(s)));
    }
    panic!("bad point spec")
}

fn enc3(t: [[u8; 32]; 3]) -> Vec<String> {
    t.iter().map(|x| hex(x)).collect()
}

/// fe <step>... ; registers are created in order.
/// in.HEX add.A.B sub.A.B neg.A mul.A.B sq.A sqn.A.N sq2.A inv.A pow.A eq.A.B(no register; emits T/F)
/// output: one token per register "<to_bytes>:<is_negative>:<is_nonzero>" followed by the eq tokens in order
fn fe_prog(steps: &[&str]) -> Vec<String> {
    let mut regs: Vec<Fe> = Vec::new();
    let mut eqs: Vec<String> = Vec::new();
    for s in steps {
        let p: Vec<&str> = s.split('.').collect();
        let r = |i: usize| -> usize { usz(p[i]) };
        match p[0] {
            "in" => regs.push(Fe::from_bytes(&a32(&expand(p[1])))),
            // the public field constants
            "k" => regs.push(match p[1] {
                "ZERO" => Fe::ZERO,
                "ONE" => Fe::ONE,
                "SQRTM1" => Fe::SQRTM1,
                "D" => Fe::D,
                "D2" => Fe::D2,
                _ => panic!("bad constant"),
            }),
            "add" => {
                let v = &regs[r(1)] + &regs[r(2)];
                regs.push(v)
            }
            "sub" => {
                let v = &regs[r(1)] - &regs[r(2)];
                regs.push(v)
            }
            "neg" => {
                let v = -&regs[r(1)];
                regs.push(v)
            }
            "mul" => {
                let v = &regs[r(1)] * &regs[r(2)];
                regs.push(v)
            }
            "sq" => {
                let v = regs[r(1)].square();
                regs.push(v)
            }
            "sqn" => {
                let v = regs[r(1)].square_repeatdly(r(2));
                regs.push(v)
            }
            "sq2" => {
                let v = regs[r(1)].square_and_double();
                regs.push(v)
            }
            "inv" => {
                let v = regs[r(1)].invert();
                regs.push(v)
            }
            "pow" => {
                let v = regs[r(1)].pow25523();
                regs.push(v)
            }
            "eq" => eqs.push(tf(regs[r(1)] == regs[r(2)])),
            _ => panic!("bad fe step {}", s),
        }
    }
    let mut out: Vec<String> = regs
        .iter()
        .map(|f| format!("{}:{}:{}", hex(&f.to_bytes()), tf(f.is_negative()), tf(f.is_nonzero())))
        .collect();
    out.extend(eqs);
    out
}

/// input bytes of call `i` of a bulk run (mirrored by cxv/bulk.py): random, or runs of 00 / ff / random bytes (limb-boundary patterns)
pub fn bulk_input(seed: u64, i: u64, len: usize) -> Vec<u8> {
    let r = prng_bytes((seed << 32).wrapping_add(i), 2 * len + 8);
    let mode = r[2 * len] & 3;
    if mode < 2 {
        return r[..len].to_vec();
    }
    let mut out: Vec<u8> = Vec::with_capacity(len + 8);
    let mut j = 0;
    while out.len() < len {
        let c = r[len + j];
        j += 1;
        let runlen = ((c & 7) + 1) as usize;
        let kind = (c >> 3) & 3;
        for _ in 0..runlen {
            let b = match kind {
                0 => 0x00,
                1 => 0xff,
                2 => r[out.len() % len],
                _ => {
                    if mode == 3 {
                        0x00
                    } else {
                        r[out.len() % len]
                    }
                }
            };
            out.push(b);
        }
    }
    out.truncate(len);
    out
}

fn bulk_one(kind: &str, inp: &[u8]) -> Vec<u8> {
    match kind {
        "x25519" => curve25519(&a32(&inp[..32]), &a32(&inp[32..64])).to_vec(),
        "x25519_base" => curve25519_base(&a32(&inp[..32])).to_vec(),
        "ed_sign" => {
            // keypair, signature over a message of 0..63 bytes, and the verdict of verifying it
            let (kp, pk) = ed25519::keypair(&a32(&inp[..32]));
            let mlen = (inp[32] & 63) as usize;
            let sig = ed25519::signature(&inp[33..33 + mlen], &kp);
            let ok = ed25519::verify(&inp[33..33 + mlen], &pk, &sig);
            let mut o = pk.to_vec();
            o.extend_from_slice(&sig);
            o.push(ok as u8);
            o
        }
        "sc_reduce" => Scalar::reduce_from_wide_bytes(&a64(&inp[..64])).to_bytes().to_vec(),
        "sc_muladd" => {
            // a * b + c mod L (hook: the crate-internal routine signing uses); c below 2^252 (the addend is a reduced nonce in the crate)
            let mut c = a32(&inp[64..96]);
            c[31] &= 0x0f;
            cryptoxide::curve25519::verif::sc_muladd(&a32(&inp[..32]), &a32(&inp[32..64]), &c).to_vec()
        }
        "poly1305" => {
            // key 32 bytes, message of 0..=96 bytes delivered in two input calls
            use cryptoxide::mac::Mac;
            let key = a32(&inp[..32]);
            let mlen = (inp[32] as usize) % 97;
            let cut = (inp[33] as usize) % (mlen + 1);
            let msg = &inp[34..34 + mlen];
            let mut m = cryptoxide::poly1305::Poly1305::new(&key);
            m.input(&msg[..cut]);
            m.input(&msg[cut..]);
            let mut t = [0xa5u8; 16];
            m.raw_result(&mut t);
            t.to_vec()
        }
        "poly1305x" => {
            // extreme operands: r all-ones (half of the calls) or 3/4 of its bytes 0xff, a message of 2..=6 whole blocks with 3/4
            // of its bytes 0xff, absorbed by ONE input call (multi-block runs with near-maximal limbs)
            use cryptoxide::mac::Mac;
            let mut key = a32(&inp[..32]);
            for j in 0..16 {
                if inp[129] & 1 == 1 || inp[130 + j] & 3 != 0 {
                    key[j] = 0xff;
                }
            }
            let nblk = 2 + (inp[32] as usize) % 5;
            let mut msg = inp[33..33 + 16 * nblk].to_vec();
            for j in 0..msg.len() {
                if inp[161 + j] & 3 != 0 {
                    msg[j] = 0xff;
                }
            }
            let mut m = cryptoxide::poly1305::Poly1305::new(&key);
            m.input(&msg);
            let mut t = [0xa5u8; 16];
            m.raw_result(&mut t);
            t.to_vec()
        }
        "fe_mix" => {
            let x = Fe::from_bytes(&a32(&inp[..32]));
            let y = Fe::from_bytes(&a32(&inp[32..64]));
            let xy = &x * &y;
            let xx = x.square();
            let t = &(&xy + &xx) - &y; // x*y + x^2 - y
            let u = &(&t * &x) - &(&xx + &xx); // t*x - 2x^2
            let v = u.square_and_double();
            let mut o = t.to_bytes().to_vec();
            o.extend_from_slice(&u.to_bytes());
            o.extend_from_slice(&v.to_bytes());
            o.push(t.is_negative() as u8 | ((u.is_nonzero() as u8) << 1) | (((t == u) as u8) << 2));
            o
        }
        "fe_inv" => {
            let x = Fe::from_bytes(&a32(&inp[..32]));
            let mut o = x.invert().to_bytes().to_vec();
            o.extend_from_slice(&x.pow25523().to_bytes());
            o
        }
        "ge_dsm" => {
            // a*A + b*B with A = ka*B; all three scalars below 2^255 (the documented operand range)
            let m = |v: &[u8]| {
                let mut x = a32(v);
                x[31] &= 0x7f;
                Scalar::from_bytes(&x)
            };
            let pa = Ge::scalarmult_base(&m(&inp[64..96]));
            GePartial::double_scalarmult_vartime(&m(&inp[..32]), pa, &m(&inp[32..64])).to_bytes().to_vec()
        }
        _ => panic!("bulk kind {}", kind),
    }
}

pub fn bulk_len(kind: &str) -> usize {
    match kind {
        "x25519" | "sc_reduce" | "fe_mix" => 64,
        "x25519_base" | "fe_inv" => 32,
        "ed_sign" => 96,
        "ge_dsm" | "sc_muladd" => 96,
        "poly1305" => 130,
        "poly1305x" => 257,
        _ => panic!("bulk kind {}", kind),
    }
}

pub fn run(op: &str, a: &[&str]) -> Vec<String> {
    match op {
        // bulk <kind> <seed> <start> <count> <block> : calls start..start+count on derived inputs; one FNV-1a-64 hash of the
        // concatenated outputs per block of `block` calls, and the raw output of the first call of each block ("i:hex")
        "bulk" => {
            let kind = a[0];
            let (seed, start, count, block) = (u64p(a[1]), u64p(a[2]), u64p(a[3]), u64p(a[4]).max(1));
            let len = bulk_len(kind);
            let mut out = Vec::new();
            // block hash (mirrored by cxv/bulk.py): sum over the calls of a block of the 16-byte little-endian chunks of the output,
            // each multiplied by an odd weight that depends on (call position in the block, chunk index), modulo 2^128
            let mut h: u128 = 0;
            for i in start..start + count {
                let o = bulk_one(kind, &bulk_input(seed, i, len));
                let pos = (i - start) % block;
                for (j, c) in o.chunks(16).enumerate() {
                    let mut b = [0u8; 16];
                    b[..c.len()].copy_from_slice(c);
                    let w: u128 = 2 * ((pos as u128) * 16 + j as u128) + 1;
                    h = h.wrapping_add(u128::from_le_bytes(b).wrapping_mul(w));
                }
                if pos == 0 {
                    out.push(format!("{}:{}", i, hex(&o)));
                }
                if pos == block - 1 || i == start + count - 1 {
                    out.push(format!("h{:032x}", h));
                    h = 0;
                }
            }
            out
        }
        "x25519" => vec![hex(&curve25519(&a32(&expand(a[0])), &a32(&expand(a[1]))))],
        "x25519_base" => vec![hex(&curve25519_base(&a32(&expand(a[0]))))],
        "x_dh" => {
            let k = x25519::SecretKey::from(a32(&expand(a[0])));
            let u = x25519::PublicKey::from(a32(&expand(a[1])));
            vec![hex(x25519::dh(&k, &u).as_ref())]
        }
        "x_base" => {
            let k = x25519::SecretKey::from(a32(&expand(a[0])));
            vec![hex(x25519::base(&k).as_ref())]
        }
        // x_dhc <k> <u> <cc> : the x25519 module with each way of constructing the keys (a = From<[u8; 32]>, s = TryFrom<&[u8]>);
        // reports dh(k, u), base(k) and the bytes the key objects give back
        "x_dhc" => {
            let (kb, ub) = (a32(&expand(a[0])), a32(&expand(a[1])));
            let c = a[2].as_bytes();
            let k = if c[0] == b'a' { x25519::SecretKey::from(kb) } else { x25519::SecretKey::try_from(&kb[..]).expect("TYPE") };
            let u = if c[1] == b'a' { x25519::PublicKey::from(ub) } else { x25519::PublicKey::try_from(&ub[..]).expect("TYPE") };
            vec![hex(x25519::dh(&k, &u).as_ref()), hex(x25519::base(&k).as_ref())]
        }
        // x_try <sk|pk|ss> <bytes> : TryFrom<&[u8]>
        "x_try" => {
            let b = expand(a[1]);
            let ok = match a[0] {
                "sk" => x25519::SecretKey::try_from(&b[..]).map(|k| k.as_ref().to_vec()).ok(),
                "pk" => x25519::PublicKey::try_from(&b[..]).map(|k| k.as_ref().to_vec()).ok(),
                _ => x25519::SharedSecret::try_from(&b[..]).map(|k| k.as_ref().to_vec()).ok(),
            };
            vec![match ok {
                Some(v) => hex(&v),
                None => "ERR".into(),
            }]
        }
        // x25519_iter <k> <u> <n> [every]: RFC 7748 self-composition; reports the value after n steps
        // (and every `every` steps when given)
        "x25519_iter" => {
            let mut k = a32(&expand(a[0]));
            let mut u = a32(&expand(a[1]));
            let n = usz(a[2]);
            let every = if a.len() > 3 { usz(a[3]) } else { 0 };
            let mut out = Vec::new();
            for i in 1..=n {
                let r = curve25519(&k, &u);
                u = k;
                k = r;
                if every != 0 && i % every == 0 && i != n {
                    out.push(hex(&k));
                }
            }
            out.push(hex(&k));
            out
        }
        "ed_keypair" => {
            let (kp, pk) = ed25519::keypair(&a32(&expand(a[0])));
            vec![hex(&kp), hex(&pk)]
        }
        "ed_sign" => {
            let (kp, _pk) = ed25519::keypair(&a32(&expand(a[0])));
            vec![hex(&ed25519::signature(&skew(&expand(a[1])), &kp))]
        }
        "ed_sign_ext" => vec![hex(&ed25519::signature_extended(&skew(&expand(a[1])), &a64(&expand(a[0]))))],
        "ed_ext_pub" => vec![hex(&ed25519::extended_to_public(&a64(&expand(a[0]))))],
        "ed_exchange" => vec![hex(&ed25519::exchange(&a32(&expand(a[0])), &a32(&expand(a[1]))))],
        // ed_verify <pk> <sig> <msg> -> verdict and whether the crate's own decoder accepts pk
        "ed_verify" => {
            let pk = a32(&expand(a[0]));
            let sig = a64(&expand(a[1]));
            let m = skew(&expand(a[2]));
            vec![tf(ed25519::verify(&m, &pk, &sig)), tf(Ge::from_bytes(&pk).is_some())]
        }
        "fe" => fe_prog(a),
        // consts : encodings of the public constants of the arithmetic types
        "consts" => vec![
            hex(&Fe::ZERO.to_bytes()),
            hex(&Fe::ONE.to_bytes()),
            hex(&Fe::SQRTM1.to_bytes()),
            hex(&Fe::D.to_bytes()),
            hex(&Fe::D2.to_bytes()),
            hex(&Scalar::ZERO.to_bytes()),
            hex(&Ge::ZERO.to_bytes()),
        ],
        "sc_reduce" => vec![hex(&Scalar::reduce_from_wide_bytes(&a64(&expand(a[0]))).to_bytes())],
        // sc_muladd <a> <b> <c> : a*b + c mod L through the hook
        "sc_muladd" => vec![hex(&cryptoxide::curve25519::verif::sc_muladd(&a32(&expand(a[0])), &a32(&expand(a[1])), &a32(&expand(a[2]))))],
        "sc_canon" => vec![match Scalar::from_bytes_canonical(&a32(&expand(a[0]))) {
            Some(s) => hex(&s.to_bytes()),
            None => "NONE".into(),
        }],
        // sc_rt <a> <b> : from_bytes/to_bytes round trip of a, and a == b
        "sc_rt" => {
            let x = Scalar::from_bytes(&a32(&expand(a[0])));
            let y = Scalar::from_bytes(&a32(&expand(a[1])));
            vec![hex(&x.to_bytes()), tf(x == y)]
        }
        "ge_base" => {
            let g = Ge::scalarmult_base(&Scalar::from_bytes(&a32(&expand(a[0]))));
            vec![hex(&g.to_bytes())]
        }
        // ge_dsm <a> <point> <b> : a*A + b*B
        "ge_dsm" => {
            let sa = Scalar::from_bytes(&a32(&expand(a[0])));
            let sb = Scalar::from_bytes(&a32(&expand(a[2])));
            match point(a[1]) {
                None => vec!["NONE".into()],
                Some(p) => vec![hex(&GePartial::double_scalarmult_vartime(&sa, p, &sb).to_bytes())],
            }
        }
        // ge_chain <P> <Q> <op>
        "ge_chain" => {
            let (p, q) = match (point(a[0]), point(a[1])) {
                (Some(p), Some(q)) => (p, q),
                _ => return vec!["NONE".into()],
            };
            let r: [u8; 32] = match a[2] {
                "rt" => p.to_bytes(),
                "rtp" => p.to_partial().to_bytes(),
                "dbl" => p.double().to_bytes(),
                "dblp" => p.double_partial().to_bytes(),
                "dblp1" => p.double_p1p1().to_full().to_bytes(),
                "pdbl" => p.to_partial().double().to_bytes(),
                "pdblf" => p.to_partial().double_full().to_bytes(),
                "pdblp1" => p.to_partial().double_p1p1().to_partial().to_bytes(),
                "add" => (&p + &q.to_cached()).to_full().to_bytes(),
                "addp" => (&p + &q.to_cached()).to_partial().to_bytes(),
                "sub" => (&p - &q.to_cached()).to_full().to_bytes(),
                "subv" => (p - q.to_cached()).to_partial().to_bytes(),
                // (P+Q)+Q-P-Q = Q through a chain of conversions
                "mix" => {
                    let c = q.to_cached();
                    let s = (&p + &c).to_full();
                    let s2 = (&s + &c).to_full();
                    let s3 = (&s2 - &p.to_cached()).to_full();
                    (&s3 - &c).to_full().to_bytes()
                }
                _ => panic!("bad ge_chain op"),
            };
            vec![hex(&r)]
        }
        // ge_prog <step>... : registers of full points, created in order
        //   in.<spec> | dbl.i | dbp.i (double_p1p1+to_full) | dpf.i (to_partial.double_full) | dpp.i (double_partial.double_full = 4P)
        //   add.i.j | sub.i.j | subv.i.j (owned operands) | addz.i | subz.i | subzv.i (GePrecomp::ZERO) | smb.<scalar>
        // output per register: "<to_bytes>:<= or !>" (! when to_partial().to_bytes() disagrees with to_bytes())
        "ge_prog" => {
            let mut regs: Vec<Ge> = Vec::new();
            for s in a {
                let p: Vec<&str> = s.splitn(2, '.').collect();
                let idx: Vec<usize> = if p[0] == "in" || p[0] == "smb" { vec![] } else { p[1].split('.').map(usz).collect() };
                let g = match p[0] {
                    "in" => match point(p[1]) {
                        Some(g) => g,
                        None => return vec!["NONE".into()],
                    },
                    "smb" => Ge::scalarmult_base(&Scalar::from_bytes(&a32(&expand(p[1])))),
                    "dbl" => regs[idx[0]].double(),
                    "dbp" => regs[idx[0]].double_p1p1().to_full(),
                    "dpf" => regs[idx[0]].clone().to_partial().double_full(),
                    "dpp" => regs[idx[0]].double_partial().double_full(),
                    "add" => (&regs[idx[0]] + &regs[idx[1]].to_cached()).to_full(),
                    "sub" => (&regs[idx[0]] - &regs[idx[1]].to_cached()).to_full(),
                    "subv" => (regs[idx[0]].clone() - regs[idx[1]].to_cached()).to_full(),
                    "addz" => (&regs[idx[0]] + &GePrecomp::ZERO).to_full(),
                    "subz" => (&regs[idx[0]] - &GePrecomp::ZERO).to_full(),
                    "subzv" => (regs[idx[0]].clone() - GePrecomp::ZERO).to_full(),
                    _ => panic!("bad ge_prog step"),
                };
                regs.push(g);
            }
            regs.iter()
                .map(|g| {
                    let b = g.to_bytes();
                    format!("{}:{}", hex(&b), if g.clone().to_partial().to_bytes() == b { "=" } else { "!" })
                })
                .collect()
        }
        "ge_decode" => vec![match Ge::from_bytes(&a32(&expand(a[0]))) {
            Some(g) => hex(&g.to_bytes()),
            None => "NONE".into(),
        }],
        // ge_table base <pos> <idx> | bi <idx>
        "ge_table" => {
            if a[0] == "base" {
                enc3(cryptoxide::curve25519::verif::ge_base(usz(a[1]), usz(a[2])))
            } else {
                enc3(cryptoxide::curve25519::verif::bi(usz(a[1])))
            }
        }
        "ge_select" => enc3(cryptoxide::curve25519::verif::select(usz(a[0]), a[1].parse::<i8>().unwrap())),
        _ => unreachable!(),
    }
}
