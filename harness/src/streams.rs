//! stream cipher histories, portable ChaCha engine, DRG
use crate::codec::*;
use crate::step;
use cryptoxide::chacha::verif::PortableEngine;
use cryptoxide::chacha20::{ChaCha, ChaChaOriginal, XChaCha};
use cryptoxide::drg::chacha::Drg;
use cryptoxide::salsa20::{Salsa, XSalsa};
use std::convert::TryFrom;

pub trait SObj {
    fn process(&mut self, i: &[u8], outlen: usize) -> Vec<u8>;
    fn process_mut(&mut self, i: &[u8]) -> Vec<u8>;
    fn process_inplace(&mut self, d: &mut [u8]);
    fn seek(&mut self, _n: u32) {
        panic!("seek unsupported")
    }
    fn setctr(&mut self, _n: u64) {
        panic!("setctr unsupported")
    }
    fn cl(&self) -> Box<dyn SObj>;
    fn as_any(&self) -> &dyn std::any::Any;
    /// `self.clone_from(src)` (Clone::clone_from may be overridden; by default it is `*self = src.clone()`)
    fn clf(&mut self, src: &dyn SObj);
}

macro_rules! sobj_clone_from {
    () => {
        fn as_any(&self) -> &dyn std::any::Any {
            self
        }
        fn clf(&mut self, src: &dyn SObj) {
            let s = src.as_any().downcast_ref::<Self>().expect("HARNESS: clone_from between different types");
            self.0.clone_from(&s.0)
        }
    };
}

macro_rules! sobj_common {
    () => {
        sobj_clone_from!();
        fn process(&mut self, i: &[u8], outlen: usize) -> Vec<u8> {
            let mut o = dirty(outlen);
            self.0.process(i, &mut o);
            o
        }
        fn process_mut(&mut self, i: &[u8]) -> Vec<u8> {
            let mut o = i.to_vec();
            self.0.process_mut(&mut o);
            o
        }
        fn process_inplace(&mut self, d: &mut [u8]) {
            self.0.process_mut(d)
        }
    };
}
struct WChaCha<const R: usize>(ChaCha<R>);
impl<const R: usize> SObj for WChaCha<R> {
    sobj_common!();
    fn seek(&mut self, n: u32) {
        self.0.seek(n)
    }
    fn cl(&self) -> Box<dyn SObj> {
        Box::new(WChaCha(self.0.clone()))
    }
}
struct WXChaCha<const R: usize>(XChaCha<R>);
impl<const R: usize> SObj for WXChaCha<R> {
    sobj_common!();
    fn seek(&mut self, n: u32) {
        self.0.seek(n)
    }
    fn cl(&self) -> Box<dyn SObj> {
        Box::new(WXChaCha(self.0.clone()))
    }
}
struct WChaChaO<const R: usize>(ChaChaOriginal<R>);
impl<const R: usize> SObj for WChaChaO<R> {
    sobj_common!();
    fn setctr(&mut self, n: u64) {
        self.0.verif_set_block_counter(n)
    }
    fn cl(&self) -> Box<dyn SObj> {
        Box::new(WChaChaO(self.0.clone()))
    }
}
struct WSalsa<const R: usize>(Salsa<R>);
impl<const R: usize> SObj for WSalsa<R> {
    sobj_common!();
    fn setctr(&mut self, n: u64) {
        self.0.verif_set_block_counter(n)
    }
    fn cl(&self) -> Box<dyn SObj> {
        Box::new(WSalsa(self.0.clone()))
    }
}
struct WXSalsa<const R: usize>(XSalsa<R>);
impl<const R: usize> SObj for WXSalsa<R> {
    sobj_common!();
    fn setctr(&mut self, n: u64) {
        self.0.verif_set_block_counter(n)
    }
    fn cl(&self) -> Box<dyn SObj> {
        Box::new(WXSalsa(self.0.clone()))
    }
}

/// A stream cipher written over the portable engine exactly like the crate's contexts
/// (clone, rounds, add_back, output_bytes, increment), used to drive `chacha/reference.rs` on x86-64.
#[derive(Clone)]
struct Portable<const R: usize> {
    st: PortableEngine<R>,
    out: [u8; 64],
    off: usize,
    wide: bool, // 64-bit counter (original variant) or 32-bit (IETF / XChaCha)
}
impl<const R: usize> Portable<R> {
    fn refill(&mut self) {
        let mut s = self.st.clone();
        s.rounds();
        s.add_back(&self.st);
        s.output_bytes(&mut self.out);
        if self.wide {
            self.st.increment64()
        } else {
            self.st.increment()
        }
        self.off = 0;
    }
}
impl<const R: usize> SObj for Portable<R> {
    fn process(&mut self, i: &[u8], outlen: usize) -> Vec<u8> {
        assert_eq!(i.len(), outlen);
        self.process_mut(i)
    }
    fn process_mut(&mut self, i: &[u8]) -> Vec<u8> {
        let mut o = i.to_vec();
        for b in o.iter_mut() {
            if self.off == 64 {
                self.refill();
            }
            *b ^= self.out[self.off];
            self.off += 1;
        }
        o
    }
    fn process_inplace(&mut self, d: &mut [u8]) {
        let r = self.process_mut(d);
        d.copy_from_slice(&r);
    }
    fn seek(&mut self, n: u32) {
        self.st.set_counter(n);
        self.off = 64;
    }
    fn setctr(&mut self, n: u64) {
        self.st.set_counter64(n);
        self.off = 64;
    }
    fn cl(&self) -> Box<dyn SObj> {
        Box::new(self.clone())
    }
    fn as_any(&self) -> &dyn std::any::Any {
        self
    }
    fn clf(&mut self, src: &dyn SObj) {
        let s = src.as_any().downcast_ref::<Self>().expect("HARNESS: clone_from between different types");
        self.clone_from(s)
    }
}

fn new_stream(variant: &str, rounds: usize, key: &[u8], nonce: &[u8]) -> Box<dyn SObj> {
    macro_rules! by_rounds {
        ($mk:ident) => {
            match rounds {
                0 => $mk!(0),
                7 => $mk!(7),
                8 => $mk!(8),
                10 => $mk!(10),
                12 => $mk!(12),
                20 => $mk!(20),
                21 => $mk!(21),
                r => panic!("rounds {} not compiled", r),
            }
        };
    }
    match variant {
        "chacha" => {
            let n = <&[u8; 12]>::try_from(nonce).expect("TYPE");
            macro_rules! mk { ($r:literal) => { Box::new(WChaCha(ChaCha::<$r>::new(key, n))) as Box<dyn SObj> }; }
            by_rounds!(mk)
        }
        "xchacha" => {
            let k = <&[u8; 32]>::try_from(key).expect("TYPE");
            let n = <&[u8; 24]>::try_from(nonce).expect("TYPE");
            macro_rules! mk { ($r:literal) => { Box::new(WXChaCha(XChaCha::<$r>::new(k, n))) as Box<dyn SObj> }; }
            by_rounds!(mk)
        }
        "chachao" => {
            let n = <&[u8; 8]>::try_from(nonce).expect("TYPE");
            macro_rules! mk { ($r:literal) => { Box::new(WChaChaO(ChaChaOriginal::<$r>::new(key, n))) as Box<dyn SObj> }; }
            by_rounds!(mk)
        }
        "salsa" => {
            let n = <&[u8; 8]>::try_from(nonce).expect("TYPE");
            macro_rules! mk { ($r:literal) => { Box::new(WSalsa(Salsa::<$r>::new(key, n))) as Box<dyn SObj> }; }
            by_rounds!(mk)
        }
        "xsalsa" => {
            let k = <&[u8; 32]>::try_from(key).expect("TYPE");
            let n = <&[u8; 24]>::try_from(nonce).expect("TYPE");
            macro_rules! mk { ($r:literal) => { Box::new(WXSalsa(XSalsa::<$r>::new(k, n))) as Box<dyn SObj> }; }
            by_rounds!(mk)
        }
        // portable engine: pchacha (12-byte nonce, 32-bit counter), pchachao (8-byte nonce, 64-bit counter),
        // pxchacha (HChaCha with the portable engine, then 8-byte nonce with 32-bit increment like the crate)
        "pchacha" | "pchachao" => {
            let wide = variant == "pchachao";
            assert!(key.len() == 16 || key.len() == 32);
            assert!(nonce.len() == if wide { 8 } else { 12 });
            macro_rules! mk { ($r:literal) => { Box::new(Portable::<$r> { st: PortableEngine::init(key, nonce), out: [0; 64], off: 64, wide }) as Box<dyn SObj> }; }
            match rounds {
                8 => mk!(8),
                12 => mk!(12),
                20 => mk!(20),
                r => panic!("rounds {} not compiled", r),
            }
        }
        "pxchacha" => {
            assert!(key.len() == 32 && nonce.len() == 24);
            macro_rules! mk { ($r:literal) => {{
                let mut h = PortableEngine::<$r>::init(key, &nonce[0..16]);
                h.rounds();
                let mut sub = [0x5Au8; 32];
                h.output_ad_bytes(&mut sub);
                Box::new(Portable::<$r> { st: PortableEngine::init(&sub, &nonce[16..24]), out: [0; 64], off: 64, wide: false }) as Box<dyn SObj>
            }}; }
            match rounds {
                8 => mk!(8),
                12 => mk!(12),
                20 => mk!(20),
                r => panic!("rounds {} not compiled", r),
            }
        }
        _ => panic!("unknown stream variant {}", variant),
    }
}

/// sc <variant> <rounds> <key> <nonce> steps...: p.O.D[.OUTLEN] pm.O.D s.O.N S.O.N c.S.D
fn history(a: &[&str]) -> Vec<String> {
    let mut out = Vec::new();
    let rounds = usz(a[1]);
    let key = expand(a[2]);
    let nonce = expand(a[3]);
    let mut objs: Vec<Option<Box<dyn SObj>>> = Vec::new();
    // a construction refused by the type system (wrong fixed-size array) is reported as TYPE
    let r = std::panic::catch_unwind(std::panic::AssertUnwindSafe(|| new_stream(a[0], rounds, &key, &nonce)));
    match r {
        Ok(o) => objs.push(Some(o)),
        Err(e) => {
            let is_type = e.downcast_ref::<String>().map(|s| s.starts_with("TYPE")).unwrap_or(false);
            out.push(if is_type { "TYPE".into() } else { "PANIC".into() });
            return out;
        }
    }
    for s in &a[4..] {
        let p: Vec<&str> = s.split('.').collect();
        let o = usz(p[1]);
        let cont = match p[0] {
            "p" => {
                let d = expand(p[2]);
                let ol = if p.len() > 3 { usz(p[3]) } else { d.len() };
                step(&mut out, || Some(hex(&objs[o].as_mut().unwrap().process(&d, ol))))
            }
            "pm" => {
                let d = expand(p[2]);
                step(&mut out, || Some(hex(&objs[o].as_mut().unwrap().process_mut(&d))))
            }
            // pms.O.DATA.OFF.c1,c2,.. : in-place processing of consecutive sub-slices of ONE buffer whose first byte sits at
            // offset OFF of a 64-byte aligned allocation (callers may hand arbitrarily aligned sub-slices to process_mut)
            "pms" => {
                let d = expand(p[2]);
                let off = usz(p[3]);
                let cuts: Vec<usize> = if p[4] == "-" { vec![] } else { p[4].split(',').map(usz).collect() };
                step(&mut out, || {
                    #[repr(align(64))]
                    #[derive(Clone)]
                    struct Al([u8; 64]);
                    let n = (d.len() + off + 63) / 64 + 1;
                    let mut buf = vec![Al([0u8; 64]); n];
                    let bytes: &mut [u8] = unsafe { std::slice::from_raw_parts_mut(buf.as_mut_ptr() as *mut u8, n * 64) };
                    // a recognisable guard pattern around the data
                    for b in bytes.iter_mut() {
                        *b = 0xa5;
                    }
                    bytes[off..off + d.len()].copy_from_slice(&d);
                    let mut a = off;
                    let ob = objs[o].as_mut().unwrap();
                    for c in &cuts {
                        ob.process_inplace(&mut bytes[a..a + c]);
                        a += c;
                    }
                    assert_eq!(a, off + d.len(), "HARNESS: cuts do not cover the data");
                    let guard_ok = bytes[..off].iter().all(|b| *b == 0xa5) && bytes[off + d.len()..].iter().all(|b| *b == 0xa5);
                    Some(format!("{}{}", hex(&bytes[off..off + d.len()]), if guard_ok { "" } else { ":GUARD-OVERWRITTEN" }))
                })
            }
            "s" => {
                let n = u64p(p[2]) as u32;
                step(&mut out, || {
                    objs[o].as_mut().unwrap().seek(n);
                    None
                })
            }
            "S" => {
                let n = u64p(p[2]);
                step(&mut out, || {
                    objs[o].as_mut().unwrap().setctr(n);
                    None
                })
            }
            "c" => {
                let dst = usz(p[2]);
                step(&mut out, || {
                    let c = objs[o].as_ref().unwrap().cl();
                    while objs.len() <= dst {
                        objs.push(None);
                    }
                    objs[dst] = Some(c);
                    None
                })
            }
            // cf.DST.SRC : objs[DST].clone_from(&objs[SRC]) (DST must exist)
            "cf" => {
                let src = usz(p[2]);
                step(&mut out, || {
                    let s = objs[src].as_ref().unwrap().cl();
                    objs[o].as_mut().unwrap().clf(s.as_ref());
                    None
                })
            }
            _ => panic!("bad sc step {}", s),
        };
        if !cont {
            break;
        }
    }
    out
}

trait DObj {
    fn bytes(&mut self, n: usize) -> Vec<u8>;
    fn fill_bytes(&mut self, prior: &[u8]) -> Vec<u8>;
    fn fill_slice(&mut self, prior: &[u8]) -> Vec<u8>;
    fn u32(&mut self) -> u32;
    fn u64(&mut self) -> u64;
}
macro_rules! with_n {
    ($n:expr, $f:ident) => {
        match $n {
            0 => $f!(0),
            1 => $f!(1),
            3 => $f!(3),
            4 => $f!(4),
            7 => $f!(7),
            8 => $f!(8),
            16 => $f!(16),
            31 => $f!(31),
            32 => $f!(32),
            33 => $f!(33),
            63 => $f!(63),
            64 => $f!(64),
            65 => $f!(65),
            100 => $f!(100),
            127 => $f!(127),
            128 => $f!(128),
            129 => $f!(129),
            255 => $f!(255),
            n => panic!("N {} not compiled", n),
        }
    };
}
impl<const R: usize> DObj for Drg<R> {
    fn bytes(&mut self, n: usize) -> Vec<u8> {
        macro_rules! f { ($n:literal) => { Drg::<R>::bytes::<$n>(self).to_vec() }; }
        with_n!(n, f)
    }
    fn fill_bytes(&mut self, prior: &[u8]) -> Vec<u8> {
        macro_rules! f { ($n:literal) => {{
            let mut b = [0u8; $n];
            b.copy_from_slice(prior);
            Drg::<R>::fill_bytes::<$n>(self, &mut b);
            b.to_vec()
        }}; }
        with_n!(prior.len(), f)
    }
    fn fill_slice(&mut self, prior: &[u8]) -> Vec<u8> {
        let mut b = prior.to_vec();
        Drg::<R>::fill_slice(self, &mut b);
        b
    }
    fn u32(&mut self) -> u32 {
        Drg::<R>::u32(self)
    }
    fn u64(&mut self) -> u64 {
        Drg::<R>::u64(self)
    }
}

/// drg <rounds> <seed> steps: b.N fb.PRIOR fs.PRIOR u32 u64
fn drg(a: &[&str]) -> Vec<String> {
    let mut out = Vec::new();
    let seed = expand(a[1]);
    let seed = <&[u8; 32]>::try_from(&seed[..]).expect("seed");
    let mut d: Box<dyn DObj> = match usz(a[0]) {
        8 => Box::new(Drg::<8>::new(seed)),
        12 => Box::new(Drg::<12>::new(seed)),
        20 => Box::new(Drg::<20>::new(seed)),
        r => panic!("drg rounds {}", r),
    };
    for s in &a[2..] {
        let p: Vec<&str> = s.split('.').collect();
        let cont = match p[0] {
            "b" => step(&mut out, || Some(hex(&d.bytes(usz(p[1]))))),
            "fb" => {
                let pr = expand(p[1]);
                step(&mut out, || Some(hex(&d.fill_bytes(&pr))))
            }
            "fs" => {
                let pr = expand(p[1]);
                step(&mut out, || Some(hex(&d.fill_slice(&pr))))
            }
            "u32" => step(&mut out, || Some(format!("{:08x}", d.u32()))),
            "u64" => step(&mut out, || Some(format!("{:016x}", d.u64()))),
            _ => panic!("bad drg step"),
        };
        if !cont {
            break;
        }
    }
    out
}

pub fn run(op: &str, a: &[&str]) -> Vec<String> {
    match op {
        "sc" => history(a),
        "drg" => drg(a),
        // pe <rounds> <key> <nonce(8|12|16)> : raw portable engine block (rounds + add_back) as initialised
        "pe" => {
            let key = expand(a[1]);
            let nonce = expand(a[2]);
            macro_rules! mk { ($r:literal) => {{
                let st = PortableEngine::<$r>::init(&key, &nonce);
                let mut s = st.clone();
                s.rounds();
                s.add_back(&st);
                let mut o = [0xA5u8; 64];
                s.output_bytes(&mut o);
                o
            }}; }
            let o = match usz(a[0]) {
                8 => mk!(8),
                12 => mk!(12),
                20 => mk!(20),
                r => panic!("rounds {}", r),
            };
            vec![hex(&o)]
        }
        // peh <rounds> <key> <nonce16> : HChaCha via the portable engine
        "peh" => {
            let key = expand(a[1]);
            let nonce = expand(a[2]);
            macro_rules! mk { ($r:literal) => {{
                let mut s = PortableEngine::<$r>::init(&key, &nonce);
                s.rounds();
                let mut o = [0x5Au8; 32];
                s.output_ad_bytes(&mut o);
                o
            }}; }
            let o = match usz(a[0]) {
                8 => mk!(8),
                12 => mk!(12),
                20 => mk!(20),
                r => panic!("rounds {}", r),
            };
            vec![hex(&o)]
        }
        _ => unreachable!(),
    }
}
