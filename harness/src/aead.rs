//! ChaCha20-Poly1305 one-shot and incremental interfaces
use crate::codec::*;
use crate::step;
use cryptoxide::chacha20poly1305::{ChaChaPoly1305, Context, ContextDecryption, ContextEncryption, DecryptionResult, Tag};
use std::convert::TryFrom;

macro_rules! by_rounds {
    ($r:expr, $mk:ident) => {
        match $r {
            0 => $mk!(0),
            7 => $mk!(7),
            8 => $mk!(8),
            12 => $mk!(12),
            20 => $mk!(20),
            21 => $mk!(21),
            r => panic!("rounds {} not compiled", r),
        }
    };
}

fn nonce12(n: &[u8]) -> &[u8; 12] {
    <&[u8; 12]>::try_from(n).expect("TYPE")
}

/// a Tag stored K bytes after the start of a 32-byte aligned record
#[repr(C, align(32))]
struct Rec<const K: usize> {
    hdr: [u8; K],
    tag: Tag,
}
fn finalize_at<const R: usize>(c: ContextDecryption<R>, tag: Tag, k: usize) -> DecryptionResult {
    macro_rules! at {
        ($($k:literal)*) => {
            match k {
                $($k => {
                    let rec = Box::new(Rec::<$k> { hdr: [0xa5; $k], tag });
                    assert_eq!((&rec.tag as *const Tag as usize) % 32, $k);
                    let r = c.finalize(&rec.tag);
                    assert!(rec.hdr.iter().all(|b| *b == 0xa5));
                    r
                })*
                _ => panic!("HARNESS: tag offset {}", k),
            }
        };
    }
    at!(0 1 2 3 4 5 6 7 8 9 10 11 12 13 14 15 16 17 20 24 31)
}

enum Inc<const R: usize> {
    Aad(Context<R>),
    Enc(ContextEncryption<R>),
    Dec(ContextDecryption<R>),
    Done,
}

fn inc_history<const R: usize>(key: &[u8], nonce: &[u8], steps: &[&str]) -> Vec<String> {
    let mut out = Vec::new();
    let mut st: Inc<R> = Inc::Done;
    if !step(&mut out, || {
        st = Inc::Aad(Context::<R>::new(key, nonce12(nonce)));
        None
    }) {
        return out;
    }
    for s in steps {
        let p: Vec<&str> = s.split('.').collect();
        let cont = match p[0] {
            "a" => {
                let d = expand(p[1]);
                step(&mut out, || {
                    match &mut st {
                        Inc::Aad(c) => c.add_data(&d),
                        _ => panic!("HARNESS: add_data in wrong phase"),
                    }
                    None
                })
            }
            // az.TOTAL.CHUNK : TOTAL zero bytes of associated data, fed CHUNK bytes at a time (no large allocation)
            "az" => {
                let total: u64 = u64p(p[1]);
                let chunk = usz(p[2]);
                step(&mut out, || {
                    let z = vec![0u8; chunk];
                    let mut left = total;
                    match &mut st {
                        Inc::Aad(c) => {
                            while left > 0 {
                                let n = std::cmp::min(left, chunk as u64) as usize;
                                c.add_data(&z[..n]);
                                left -= n as u64;
                            }
                        }
                        _ => panic!("HARNESS: add_data in wrong phase"),
                    }
                    None
                })
            }
            "E" => step(&mut out, || {
                st = match std::mem::replace(&mut st, Inc::Done) {
                    Inc::Aad(c) => Inc::Enc(c.to_encryption()),
                    _ => panic!("HARNESS"),
                };
                None
            }),
            "D" => step(&mut out, || {
                st = match std::mem::replace(&mut st, Inc::Done) {
                    Inc::Aad(c) => Inc::Dec(c.to_decryption()),
                    _ => panic!("HARNESS"),
                };
                None
            }),
            // e.DATA[.OUTLEN] / em.DATA ; d.DATA[.OUTLEN] / dm.DATA
            "e" | "d" => {
                let d = expand(p[1]);
                let ol = if p.len() > 2 { usz(p[2]) } else { d.len() };
                step(&mut out, || {
                    let mut o = dirty(ol);
                    match &mut st {
                        Inc::Enc(c) => c.encrypt(&d, &mut o),
                        Inc::Dec(c) => c.decrypt(&d, &mut o),
                        _ => panic!("HARNESS"),
                    }
                    Some(hex(&o))
                })
            }
            "em" | "dm" => {
                let mut d = expand(p[1]);
                step(&mut out, || {
                    match &mut st {
                        Inc::Enc(c) => c.encrypt_mut(&mut d),
                        Inc::Dec(c) => c.decrypt_mut(&mut d),
                        _ => panic!("HARNESS"),
                    }
                    Some(hex(&d))
                })
            }
            // cl : continue on a clone of the running context (the original is dropped), in whatever phase it is
            "cl" => step(&mut out, || {
                st = match std::mem::replace(&mut st, Inc::Done) {
                    Inc::Aad(c) => Inc::Aad(c.clone()),
                    Inc::Enc(c) => Inc::Enc(c.clone()),
                    Inc::Dec(c) => Inc::Dec(c.clone()),
                    Inc::Done => panic!("HARNESS"),
                };
                None
            }),
            // clf : continue on a FRESH context of the same phase that was overwritten through clone_from(&current)
            "clf" => step(&mut out, || {
                st = match std::mem::replace(&mut st, Inc::Done) {
                    Inc::Aad(c) => {
                        let mut f = Context::<R>::new(key, nonce12(nonce));
                        f.clone_from(&c);
                        Inc::Aad(f)
                    }
                    Inc::Enc(c) => {
                        let mut f = Context::<R>::new(key, nonce12(nonce)).to_encryption();
                        f.clone_from(&c);
                        Inc::Enc(f)
                    }
                    Inc::Dec(c) => {
                        let mut f = Context::<R>::new(key, nonce12(nonce)).to_decryption();
                        f.clone_from(&c);
                        Inc::Dec(f)
                    }
                    Inc::Done => panic!("HARNESS"),
                };
                None
            }),
            // ex.DATA.OUTLEN / dx.DATA.OUTLEN : a buffer-to-buffer call with a MISMATCHED output length; the refusal is logged and
            // the history continues on the same context
            "ex" | "dx" => {
                let d = expand(p[1]);
                let ol = usz(p[2]);
                step(&mut out, || {
                    let mut o = dirty(ol);
                    match &mut st {
                        Inc::Enc(c) => c.encrypt(&d, &mut o),
                        Inc::Dec(c) => c.decrypt(&d, &mut o),
                        _ => panic!("HARNESS"),
                    }
                    Some(hex(&o))
                });
                true
            }
            // dz.TOTAL.CHUNK : TOTAL zero bytes of CIPHERTEXT decrypted in place, CHUNK bytes at a time; reports the first and the last
            // 64 bytes of the plaintext (= keystream) only
            "dz" => {
                let total: u64 = u64p(p[1]);
                let chunk = usz(p[2]);
                step(&mut out, || {
                    let mut buf = vec![0u8; chunk];
                    let mut left = total;
                    let mut first: Vec<u8> = Vec::new();
                    let mut last: Vec<u8> = Vec::new();
                    while left > 0 {
                        let n = std::cmp::min(left, chunk as u64) as usize;
                        for b in buf[..n].iter_mut() {
                            *b = 0;
                        }
                        match &mut st {
                            Inc::Dec(c) => c.decrypt_mut(&mut buf[..n]),
                            _ => panic!("HARNESS"),
                        }
                        if first.is_empty() {
                            first = buf[..std::cmp::min(64, n)].to_vec();
                        }
                        last.extend_from_slice(&buf[..n]);
                        if last.len() > 64 {
                            last = last[last.len() - 64..].to_vec();
                        }
                        left -= n as u64;
                    }
                    Some(format!("{}:{}", hex(&first), hex(&last)))
                })
            }
            // fin : finalize; for encryption a clone is finalized too (both tags are reported)
            "fin" => step(&mut out, || match std::mem::replace(&mut st, Inc::Done) {
                Inc::Enc(c) => {
                    let c2 = c.clone();
                    let t1 = c.finalize();
                    let t2 = c2.finalize();
                    Some(format!("{} {}", hex(&t1.0), hex(&t2.0)))
                }
                Inc::Dec(c) => {
                    let t = expand(p[1]);
                    let tag = Tag(<[u8; 16]>::try_from(&t[..]).expect("TYPE"));
                    // fin.<tag>.<k> : the caller's Tag lives k bytes into a 32-byte aligned record (Tag has alignment 1)
                    let k = if p.len() > 2 { usz(p[2]) } else { 0 };
                    let r = finalize_at(c, tag, k);
                    Some(if r == DecryptionResult::Match { "T".into() } else { "F".into() })
                }
                _ => panic!("HARNESS"),
            }),
            _ => panic!("bad aead step {}", s),
        };
        if !cont {
            break;
        }
    }
    out
}

pub fn run(op: &str, a: &[&str]) -> Vec<String> {
    match op {
        // aead_enc <rounds> <key> <nonce> <aad> <pt> [outlen] [taglen]
        "aead_enc" => {
            let (key, nonce, aad, pt) = (expand(a[1]), expand(a[2]), expand(a[3]), expand(a[4]));
            let ol = if a.len() > 5 { usz(a[5]) } else { pt.len() };
            let tl = if a.len() > 6 { usz(a[6]) } else { 16 };
            let mut o = dirty(ol);
            let mut t = dirty(tl);
            macro_rules! mk { ($r:literal) => { ChaChaPoly1305::<$r>::new(&key, nonce12(&nonce), &aad).encrypt(&pt, &mut o, &mut t) }; }
            by_rounds!(usz(a[0]), mk);
            vec![hex(&o), hex(&t)]
        }
        // aead_dec <rounds> <key> <nonce> <aad> <ct> <tag> [outlen]
        "aead_dec" => {
            let (key, nonce, aad, ct, tag) = (expand(a[1]), expand(a[2]), expand(a[3]), expand(a[4]), expand(a[5]));
            let ol = if a.len() > 6 { usz(a[6]) } else { ct.len() };
            let mut o = dirty(ol);
            macro_rules! mk { ($r:literal) => { ChaChaPoly1305::<$r>::new(&key, nonce12(&nonce), &aad).decrypt(&ct, &mut o, &tag) }; }
            let ok = by_rounds!(usz(a[0]), mk);
            vec![hex(&o), tf(ok)]
        }
        // aead_twice <key> <nonce> <aad> <data> <first:e|d> <second:e|d> : reuse of a one-shot object
        "aead_twice" => {
            let (key, nonce, aad, d) = (expand(a[0]), expand(a[1]), expand(a[2]), expand(a[3]));
            let mut out = Vec::new();
            let mut c = ChaChaPoly1305::<20>::new(&key, nonce12(&nonce), &aad);
            for which in &a[4..6] {
                let cont = step(&mut out, || {
                    let mut o = dirty(d.len());
                    let mut t = [0u8; 16];
                    if *which == "e" {
                        c.encrypt(&d, &mut o, &mut t);
                        Some(format!("{}:{}", hex(&o), hex(&t)))
                    } else {
                        let ok = c.decrypt(&d, &mut o, &t);
                        Some(format!("{}:{}", hex(&o), tf(ok)))
                    }
                });
                if !cont {
                    break;
                }
            }
            out
        }
        // aead_inc <rounds> <key> <nonce> steps...
        "aead_inc" => {
            let (key, nonce) = (expand(a[1]), expand(a[2]));
            macro_rules! mk { ($r:literal) => { inc_history::<$r>(&key, &nonce, &a[3..]) }; }
            by_rounds!(usz(a[0]), mk)
        }
        _ => unreachable!(),
    }
}
