//! (reserved)
