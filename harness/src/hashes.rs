//! hash one-shots, parameter grids and context histories
use crate::codec::*;
use crate::step;
use cryptoxide::hashing::{self, blake2b, blake2s, keccak, ripemd160, sha1, sha2, sha3};

pub fn oneshot(variant: &str, m: &[u8]) -> Vec<u8> {
    match variant {
        "sha1" => hashing::sha1(m).to_vec(),
        "sha224" => hashing::sha224(m).to_vec(),
        "sha256" => hashing::sha256(m).to_vec(),
        "sha384" => hashing::sha384(m).to_vec(),
        "sha512" => hashing::sha512(m).to_vec(),
        "sha512_224" => sha2::Sha512Trunc224::new().update(m).finalize().to_vec(),
        "sha512_256" => sha2::Sha512Trunc256::new().update(m).finalize().to_vec(),
        "sha3_224" => hashing::sha3_224(m).to_vec(),
        "sha3_256" => hashing::sha3_256(m).to_vec(),
        "sha3_384" => hashing::sha3_384(m).to_vec(),
        "sha3_512" => hashing::sha3_512(m).to_vec(),
        "keccak224" => hashing::keccak224(m).to_vec(),
        "keccak256" => hashing::keccak256(m).to_vec(),
        "keccak384" => hashing::keccak384(m).to_vec(),
        "keccak512" => hashing::keccak512(m).to_vec(),
        "ripemd160" => hashing::ripemd160(m).to_vec(),
        "blake2b_224" => hashing::blake2b_224(m).to_vec(),
        "blake2b_256" => hashing::blake2b_256(m).to_vec(),
        "blake2b_384" => hashing::blake2b_384(m).to_vec(),
        "blake2b_512" => hashing::blake2b_512(m).to_vec(),
        "blake2s_224" => hashing::blake2s_224(m).to_vec(),
        "blake2s_256" => hashing::blake2s_256(m).to_vec(),
        _ => panic!("unknown hash variant {}", variant),
    }
}

/// typed BLAKE2b context, finalize_at, for any compiled BITS
pub fn b2b_typed(bits: usize, key: &[u8], m: &[u8]) -> Vec<u8> {
    macro_rules! go {
        ($b:literal) => {{
            let mut out = dirty(($b + 7) / 8);
            let c = if key.is_empty() { blake2b::Context::<$b>::new() } else { blake2b::Context::<$b>::new_keyed(key) };
            c.update(m).finalize_at(&mut out);
            out
        }};
    }
    match bits {
            8 => go!(8),
            16 => go!(16),
            24 => go!(24),
            32 => go!(32),
            40 => go!(40),
            48 => go!(48),
            56 => go!(56),
            64 => go!(64),
            72 => go!(72),
            80 => go!(80),
            88 => go!(88),
            96 => go!(96),
            104 => go!(104),
            112 => go!(112),
            120 => go!(120),
            128 => go!(128),
            136 => go!(136),
            144 => go!(144),
            152 => go!(152),
            160 => go!(160),
            168 => go!(168),
            176 => go!(176),
            184 => go!(184),
            192 => go!(192),
            200 => go!(200),
            208 => go!(208),
            216 => go!(216),
            224 => go!(224),
            232 => go!(232),
            240 => go!(240),
            248 => go!(248),
            256 => go!(256),
            264 => go!(264),
            272 => go!(272),
            280 => go!(280),
            288 => go!(288),
            296 => go!(296),
            304 => go!(304),
            312 => go!(312),
            320 => go!(320),
            328 => go!(328),
            336 => go!(336),
            344 => go!(344),
            352 => go!(352),
            360 => go!(360),
            368 => go!(368),
            376 => go!(376),
            384 => go!(384),
            392 => go!(392),
            400 => go!(400),
            408 => go!(408),
            416 => go!(416),
            424 => go!(424),
            432 => go!(432),
            440 => go!(440),
            448 => go!(448),
            456 => go!(456),
            464 => go!(464),
            472 => go!(472),
            480 => go!(480),
            488 => go!(488),
            496 => go!(496),
            504 => go!(504),
            512 => go!(512),
            1 => go!(1),
            9 => go!(9),
            250 => go!(250),
            505 => go!(505),
            0 => go!(0),
            513 => go!(513),
            520 => go!(520),
            1024 => go!(1024),
        _ => panic!("BITS {} not compiled", bits),
    }
}
pub fn b2s_typed(bits: usize, key: &[u8], m: &[u8]) -> Vec<u8> {
    macro_rules! go {
        ($b:literal) => {{
            let mut out = dirty(($b + 7) / 8);
            let c = if key.is_empty() { blake2s::Context::<$b>::new() } else { blake2s::Context::<$b>::new_keyed(key) };
            c.update(m).finalize_at(&mut out);
            out
        }};
    }
    match bits {
            8 => go!(8),
            16 => go!(16),
            24 => go!(24),
            32 => go!(32),
            40 => go!(40),
            48 => go!(48),
            56 => go!(56),
            64 => go!(64),
            72 => go!(72),
            80 => go!(80),
            88 => go!(88),
            96 => go!(96),
            104 => go!(104),
            112 => go!(112),
            120 => go!(120),
            128 => go!(128),
            136 => go!(136),
            144 => go!(144),
            152 => go!(152),
            160 => go!(160),
            168 => go!(168),
            176 => go!(176),
            184 => go!(184),
            192 => go!(192),
            200 => go!(200),
            208 => go!(208),
            216 => go!(216),
            224 => go!(224),
            232 => go!(232),
            240 => go!(240),
            248 => go!(248),
            256 => go!(256),
            1 => go!(1),
            9 => go!(9),
            250 => go!(250),
            0 => go!(0),
            257 => go!(257),
            264 => go!(264),
            512 => go!(512),
        _ => panic!("BITS {} not compiled", bits),
    }
}

// ---------------------------------------------------------------- context objects
pub trait HObj {
    fn upd(self: Box<Self>, d: &[u8]) -> Box<dyn HObj>;
    fn updm(&mut self, d: &[u8]);
    fn cl(&self) -> Box<dyn HObj>;
    fn as_any(&self) -> &dyn std::any::Any;
    /// `self.clone_from(src)`
    fn clf(&mut self, src: &dyn HObj);
    fn reset(&mut self);
    fn reset_key(&mut self, _k: &[u8]) {
        panic!("reset_with_key unsupported")
    }
    fn finr(&mut self) -> Vec<u8>;
    fn finrk(&mut self, _k: &[u8]) -> Vec<u8> {
        panic!("finalize_reset_with_key unsupported")
    }
    fn fin(self: Box<Self>) -> Vec<u8>;
    fn setctr(&mut self, _t: u128) {
        panic!("setctr unsupported")
    }
}

macro_rules! simple_hobj {
    ($t:ty) => {
        impl HObj for $t {
            fn upd(self: Box<Self>, d: &[u8]) -> Box<dyn HObj> {
                Box::new((*self).update(d))
            }
            fn updm(&mut self, d: &[u8]) {
                self.update_mut(d)
            }
            fn cl(&self) -> Box<dyn HObj> {
                Box::new(self.clone())
            }
            fn as_any(&self) -> &dyn std::any::Any {
                self
            }
            fn clf(&mut self, src: &dyn HObj) {
                let s = src.as_any().downcast_ref::<Self>().expect("HARNESS: clone_from between different types");
                self.clone_from(s)
            }
            fn reset(&mut self) {
                <$t>::reset(self)
            }
            fn finr(&mut self) -> Vec<u8> {
                self.finalize_reset().to_vec()
            }
            fn fin(self: Box<Self>) -> Vec<u8> {
                (*self).finalize().to_vec()
            }
        }
    };
}
simple_hobj!(sha1::Context);
simple_hobj!(sha2::Context224);
simple_hobj!(sha2::Context256);
simple_hobj!(sha2::Context384);
simple_hobj!(sha2::Context512);
simple_hobj!(sha2::Context512_224);
simple_hobj!(sha2::Context512_256);
simple_hobj!(sha3::Context224);
simple_hobj!(sha3::Context256);
simple_hobj!(sha3::Context384);
simple_hobj!(sha3::Context512);
simple_hobj!(keccak::Context224);
simple_hobj!(keccak::Context256);
simple_hobj!(keccak::Context384);
simple_hobj!(keccak::Context512);
simple_hobj!(ripemd160::Context);

// typed BLAKE2 contexts with the array returning finalizers
macro_rules! b2_arr_hobj {
    ($m:ident, $b:literal, $w:ty) => {
        impl HObj for $m::Context<$b> {
            fn upd(self: Box<Self>, d: &[u8]) -> Box<dyn HObj> {
                Box::new((*self).update(d))
            }
            fn updm(&mut self, d: &[u8]) {
                self.update_mut(d)
            }
            fn cl(&self) -> Box<dyn HObj> {
                Box::new(self.clone())
            }
            fn as_any(&self) -> &dyn std::any::Any {
                self
            }
            fn clf(&mut self, src: &dyn HObj) {
                let s = src.as_any().downcast_ref::<Self>().expect("HARNESS: clone_from between different types");
                self.clone_from(s)
            }
            fn reset(&mut self) {
                $m::Context::<$b>::reset(self)
            }
            fn reset_key(&mut self, k: &[u8]) {
                self.reset_with_key(k)
            }
            fn finr(&mut self) -> Vec<u8> {
                self.finalize_reset().to_vec()
            }
            fn finrk(&mut self, k: &[u8]) -> Vec<u8> {
                self.finalize_reset_with_key(k).to_vec()
            }
            fn fin(self: Box<Self>) -> Vec<u8> {
                (*self).finalize().to_vec()
            }
            fn setctr(&mut self, t: u128) {
                self.verif_set_counter(t as $w, (t >> <$w>::BITS) as $w)
            }
        }
    };
}
b2_arr_hobj!(blake2b, 224, u64);
b2_arr_hobj!(blake2b, 256, u64);
b2_arr_hobj!(blake2b, 384, u64);
b2_arr_hobj!(blake2b, 512, u64);
b2_arr_hobj!(blake2s, 224, u32);
b2_arr_hobj!(blake2s, 256, u32);

// typed contexts through the *_at API (other sizes)
macro_rules! b2_at_hobj {
    ($m:ident, $b:literal, $w:ty) => {
        impl HObj for $m::Context<$b> {
            fn upd(self: Box<Self>, d: &[u8]) -> Box<dyn HObj> {
                Box::new((*self).update(d))
            }
            fn updm(&mut self, d: &[u8]) {
                self.update_mut(d)
            }
            fn cl(&self) -> Box<dyn HObj> {
                Box::new(self.clone())
            }
            fn as_any(&self) -> &dyn std::any::Any {
                self
            }
            fn clf(&mut self, src: &dyn HObj) {
                let s = src.as_any().downcast_ref::<Self>().expect("HARNESS: clone_from between different types");
                self.clone_from(s)
            }
            fn reset(&mut self) {
                $m::Context::<$b>::reset(self)
            }
            fn reset_key(&mut self, k: &[u8]) {
                self.reset_with_key(k)
            }
            fn finr(&mut self) -> Vec<u8> {
                let mut o = dirty(($b + 7) / 8);
                self.finalize_reset_at(&mut o);
                o
            }
            fn finrk(&mut self, k: &[u8]) -> Vec<u8> {
                let mut o = dirty(($b + 7) / 8);
                self.finalize_reset_with_key_at(k, &mut o);
                o
            }
            fn fin(self: Box<Self>) -> Vec<u8> {
                let mut o = dirty(($b + 7) / 8);
                (*self).finalize_at(&mut o);
                o
            }
            fn setctr(&mut self, t: u128) {
                self.verif_set_counter(t as $w, (t >> <$w>::BITS) as $w)
            }
        }
    };
}
b2_at_hobj!(blake2b, 8, u64);
b2_at_hobj!(blake2b, 160, u64);
b2_at_hobj!(blake2b, 504, u64);
b2_at_hobj!(blake2s, 8, u32);
b2_at_hobj!(blake2s, 128, u32);
b2_at_hobj!(blake2s, 248, u32);
b2_at_hobj!(blake2b, 9, u64);
b2_at_hobj!(blake2b, 250, u64);
b2_at_hobj!(blake2b, 505, u64);
b2_at_hobj!(blake2s, 9, u32);
b2_at_hobj!(blake2s, 100, u32);
b2_at_hobj!(blake2s, 250, u32);

struct B2bDyn(blake2b::ContextDyn, usize);
impl HObj for B2bDyn {
    fn upd(self: Box<Self>, d: &[u8]) -> Box<dyn HObj> {
        let n = self.1;
        Box::new(B2bDyn(self.0.update(d), n))
    }
    fn updm(&mut self, d: &[u8]) {
        self.0.update_mut(d)
    }
    fn cl(&self) -> Box<dyn HObj> {
        Box::new(B2bDyn(self.0.clone(), self.1))
    }
    fn as_any(&self) -> &dyn std::any::Any {
        self
    }
    fn clf(&mut self, src: &dyn HObj) {
        let s = src.as_any().downcast_ref::<Self>().expect("HARNESS: clone_from between different types");
        self.0.clone_from(&s.0);
        self.1 = s.1;
    }
    fn reset(&mut self) {
        self.0.reset()
    }
    fn reset_key(&mut self, k: &[u8]) {
        self.0.reset_with_key(k)
    }
    fn finr(&mut self) -> Vec<u8> {
        let mut o = dirty(self.1);
        self.0.finalize_reset_at(&mut o);
        o
    }
    fn finrk(&mut self, k: &[u8]) -> Vec<u8> {
        let mut o = dirty(self.1);
        self.0.finalize_reset_with_key_at(k, &mut o);
        o
    }
    fn fin(self: Box<Self>) -> Vec<u8> {
        let mut o = dirty(self.1);
        self.0.finalize_at(&mut o);
        o
    }
    fn setctr(&mut self, t: u128) {
        self.0.verif_set_counter(t as u64, (t >> 64) as u64)
    }
}
struct B2sDyn(blake2s::ContextDyn, usize);
impl HObj for B2sDyn {
    fn upd(self: Box<Self>, d: &[u8]) -> Box<dyn HObj> {
        let n = self.1;
        Box::new(B2sDyn(self.0.update(d), n))
    }
    fn updm(&mut self, d: &[u8]) {
        self.0.update_mut(d)
    }
    fn cl(&self) -> Box<dyn HObj> {
        Box::new(B2sDyn(self.0.clone(), self.1))
    }
    fn as_any(&self) -> &dyn std::any::Any {
        self
    }
    fn clf(&mut self, src: &dyn HObj) {
        let s = src.as_any().downcast_ref::<Self>().expect("HARNESS: clone_from between different types");
        self.0.clone_from(&s.0);
        self.1 = s.1;
    }
    fn reset(&mut self) {
        self.0.reset()
    }
    fn reset_key(&mut self, k: &[u8]) {
        self.0.reset_with_key(k)
    }
    fn finr(&mut self) -> Vec<u8> {
        let mut o = dirty(self.1);
        self.0.finalize_reset_at(&mut o);
        o
    }
    fn finrk(&mut self, k: &[u8]) -> Vec<u8> {
        let mut o = dirty(self.1);
        self.0.finalize_reset_with_key_at(k, &mut o);
        o
    }
    fn fin(self: Box<Self>) -> Vec<u8> {
        let mut o = dirty(self.1);
        self.0.finalize_at(&mut o);
        o
    }
    fn setctr(&mut self, t: u128) {
        self.0.verif_set_counter(t as u32, (t >> 32) as u32)
    }
}

/// variant syntax: plain name | b2b/<outlen>/<key> | b2s/<outlen>/<key> | b2bt/<bits>/<key> | b2st/<bits>/<key>
pub fn new_ctx(variant: &str) -> Box<dyn HObj> {
    let p: Vec<&str> = variant.split('/').collect();
    match p[0] {
        "sha1" => Box::new(sha1::Sha1::new()),
        "sha224" => Box::new(sha2::Sha224::new()),
        "sha256" => Box::new(sha2::Sha256::new()),
        "sha384" => Box::new(sha2::Sha384::new()),
        "sha512" => Box::new(sha2::Sha512::new()),
        "sha512_224" => Box::new(sha2::Sha512Trunc224::new()),
        "sha512_256" => Box::new(sha2::Sha512Trunc256::new()),
        "sha3_224" => Box::new(sha3::Sha3_224::new()),
        "sha3_256" => Box::new(sha3::Sha3_256::new()),
        "sha3_384" => Box::new(sha3::Sha3_384::new()),
        "sha3_512" => Box::new(sha3::Sha3_512::new()),
        "keccak224" => Box::new(keccak::Keccak224::new()),
        "keccak256" => Box::new(keccak::Keccak256::new()),
        "keccak384" => Box::new(keccak::Keccak384::new()),
        "keccak512" => Box::new(keccak::Keccak512::new()),
        "ripemd160" => Box::new(ripemd160::Ripemd160::new()),
        "b2b" => {
            let n = usz(p[1]);
            let k = expand(p[2]);
            Box::new(B2bDyn(if k.is_empty() { blake2b::ContextDyn::new(n) } else { blake2b::ContextDyn::new_keyed(n, &k) }, n))
        }
        "b2s" => {
            let n = usz(p[1]);
            let k = expand(p[2]);
            Box::new(B2sDyn(if k.is_empty() { blake2s::ContextDyn::new(n) } else { blake2s::ContextDyn::new_keyed(n, &k) }, n))
        }
        "b2bt" => {
            let k = expand(p[2]);
            macro_rules! mk {
                ($b:literal) => {
                    if k.is_empty() { Box::new(blake2b::Blake2b::<$b>::new()) } else { Box::new(blake2b::Blake2b::<$b>::new_keyed(&k)) }
                };
            }
            match usz(p[1]) {
                8 => mk!(8),
                160 => mk!(160),
                224 => mk!(224),
                256 => mk!(256),
                384 => mk!(384),
                504 => mk!(504),
                512 => mk!(512),
                9 => mk!(9),
                250 => mk!(250),
                505 => mk!(505),
                b => panic!("b2bt bits {} not compiled", b),
            }
        }
        "b2st" => {
            let k = expand(p[2]);
            macro_rules! mk {
                ($b:literal) => {
                    if k.is_empty() { Box::new(blake2s::Blake2s::<$b>::new()) } else { Box::new(blake2s::Blake2s::<$b>::new_keyed(&k)) }
                };
            }
            match usz(p[1]) {
                8 => mk!(8),
                128 => mk!(128),
                224 => mk!(224),
                248 => mk!(248),
                256 => mk!(256),
                9 => mk!(9),
                100 => mk!(100),
                250 => mk!(250),
                b => panic!("b2st bits {} not compiled", b),
            }
        }
        _ => panic!("unknown ctx variant {}", variant),
    }
}

/// hh <variant> <step>...   steps: u.O.D m.O.D c.S.D r.O k.O.KEY f.O fk.O.KEY F.O t.O.CTR
pub fn history(variant: &str, steps: &[&str]) -> Vec<String> {
    let mut out = Vec::new();
    let mut objs: Vec<Option<Box<dyn HObj>>> = Vec::new();
    let mut ok = true;
    ok &= step(&mut out, || {
        objs.push(Some(new_ctx(variant)));
        None
    });
    if !ok {
        return out;
    }
    for s in steps {
        let p: Vec<&str> = s.split('.').collect();
        let o = usz(p[1]);
        let cont = match p[0] {
            "u" => {
                let d = skew(&expand(p[2]));
                step(&mut out, || {
                    let c = objs[o].take().expect("consumed object");
                    objs[o] = Some(c.upd(&d));
                    None
                })
            }
            "m" => {
                let d = skew(&expand(p[2]));
                step(&mut out, || {
                    objs[o].as_mut().unwrap().updm(&d);
                    None
                })
            }
            "c" => {
                let dst = usz(p[2]);
                step(&mut out, || {
                    let c = objs[o].as_ref().unwrap().cl();
                    while objs.len() <= dst {
                        objs.push(None);
                    }
                    objs[dst] = Some(c);
                    None
                })
            }
            // cf.DST.SRC : objs[DST].clone_from(&objs[SRC])
            "cf" => {
                let src = usz(p[2]);
                step(&mut out, || {
                    let s = objs[src].as_ref().unwrap().cl();
                    objs[o].as_mut().unwrap().clf(s.as_ref());
                    None
                })
            }
            "r" => step(&mut out, || {
                objs[o].as_mut().unwrap().reset();
                None
            }),
            "k" => {
                let k = expand(p[2]);
                step(&mut out, || {
                    objs[o].as_mut().unwrap().reset_key(&k);
                    None
                })
            }
            "f" => step(&mut out, || Some(hex(&objs[o].as_mut().unwrap().finr()))),
            "fk" => {
                let k = expand(p[2]);
                step(&mut out, || Some(hex(&objs[o].as_mut().unwrap().finrk(&k))))
            }
            "F" => step(&mut out, || {
                let c = objs[o].take().expect("consumed object");
                Some(hex(&c.fin()))
            }),
            "t" => {
                let t = u128p(p[2]);
                step(&mut out, || {
                    objs[o].as_mut().unwrap().setctr(t);
                    None
                })
            }
            _ => panic!("bad hh step {}", s),
        };
        if !cont {
            break;
        }
    }
    out
}

#[repr(C)]
struct Embedded<T> {
    pad: u64,
    ctx: T,
}

pub fn run(op: &str, a: &[&str]) -> Vec<String> {
    match op {
        "hash" => vec![hex(&oneshot(a[0], &expand(a[1])))],
        // hashoff <variant> <offset> <data> : message placed at the given offset of a 64-byte aligned buffer
        "hashoff" => {
            let off = usz(a[1]);
            let d = expand(a[2]);
            #[repr(align(64))]
            struct Al([u8; 64]);
            let n = (d.len() + off + 63) / 64 + 1;
            let mut buf: Vec<Al> = Vec::with_capacity(n);
            for _ in 0..n {
                buf.push(Al([0u8; 64]));
            }
            let bytes: &mut [u8] = unsafe { std::slice::from_raw_parts_mut(buf.as_mut_ptr() as *mut u8, n * 64) };
            bytes[off..off + d.len()].copy_from_slice(&d);
            vec![hex(&oneshot(a[0], &bytes[off..off + d.len()]))]
        }
        "b2b" => {
            let n = usz(a[0]);
            let k = expand(a[1]);
            let m = expand(a[2]);
            let mut o = dirty(n);
            let c = if k.is_empty() { blake2b::ContextDyn::new(n) } else { blake2b::ContextDyn::new_keyed(n, &k) };
            c.update(&m).finalize_at(&mut o);
            vec![hex(&o)]
        }
        "b2s" => {
            let n = usz(a[0]);
            let k = expand(a[1]);
            let m = expand(a[2]);
            let mut o = dirty(n);
            let c = if k.is_empty() { blake2s::ContextDyn::new(n) } else { blake2s::ContextDyn::new_keyed(n, &k) };
            c.update(&m).finalize_at(&mut o);
            vec![hex(&o)]
        }
        // b2b_at / b2s_at <outlen> <key> <data> <buflen> : finalize_at into a buffer of another size
        "b2b_at" | "b2s_at" => {
            let n = usz(a[0]);
            let k = expand(a[1]);
            let m = expand(a[2]);
            let mut o = dirty(usz(a[3]));
            if op == "b2b_at" {
                let c = if k.is_empty() { blake2b::ContextDyn::new(n) } else { blake2b::ContextDyn::new_keyed(n, &k) };
                c.update(&m).finalize_at(&mut o);
            } else {
                let c = if k.is_empty() { blake2s::ContextDyn::new(n) } else { blake2s::ContextDyn::new_keyed(n, &k) };
                c.update(&m).finalize_at(&mut o);
            }
            vec![hex(&o)]
        }
        "b2bt" => vec![hex(&b2b_typed(usz(a[0]), &expand(a[1]), &expand(a[2])))],
        "b2st" => vec![hex(&b2s_typed(usz(a[0]), &expand(a[1]), &expand(a[2])))],
        "b2blegacy" => {
            let mut o = dirty(usz(a[0]));
            cryptoxide::blake2b::Blake2b::blake2b(&mut o, &expand(a[2]), &expand(a[1]));
            vec![hex(&o)]
        }
        "b2slegacy" => {
            let mut o = dirty(usz(a[0]));
            cryptoxide::blake2s::Blake2s::blake2s(&mut o, &expand(a[2]), &expand(a[1]));
            vec![hex(&o)]
        }
        "hh" => history(a[0], &a[1..]),
        // b2embed <b|s> <outlen> <key> <data> : context living at offset 8 of a repr(C) struct inside a Vec
        "b2embed" => {
            let n = usz(a[1]);
            let k = expand(a[2]);
            let m = expand(a[3]);
            let mut o = dirty(n);
            if a[0] == "b" {
                let mut v: Vec<Embedded<blake2b::ContextDyn>> = Vec::new();
                for _ in 0..3 {
                    v.push(Embedded { pad: 7, ctx: if k.is_empty() { blake2b::ContextDyn::new(n) } else { blake2b::ContextDyn::new_keyed(n, &k) } });
                }
                for e in v.iter_mut() {
                    e.ctx.update_mut(&m);
                }
                let e = v.pop().unwrap();
                assert!(e.pad == 7);
                e.ctx.finalize_at(&mut o);
            } else {
                let mut v: Vec<Embedded<blake2s::ContextDyn>> = Vec::new();
                for _ in 0..3 {
                    v.push(Embedded { pad: 7, ctx: if k.is_empty() { blake2s::ContextDyn::new(n) } else { blake2s::ContextDyn::new_keyed(n, &k) } });
                }
                for e in v.iter_mut() {
                    e.ctx.update_mut(&m);
                }
                let e = v.pop().unwrap();
                assert!(e.pad == 7);
                e.ctx.finalize_at(&mut o);
            }
            vec![hex(&o)]
        }
        _ => unreachable!(),
    }
}
