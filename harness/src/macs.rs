//! MAC and legacy digest object histories
use crate::codec::*;
use crate::step;
use cryptoxide::digest::Digest;
use cryptoxide::hmac::Hmac;
use cryptoxide::mac::Mac;
use cryptoxide::poly1305::Poly1305;
use std::convert::TryFrom;

pub trait MObj {
    fn input(&mut self, d: &[u8]);
    fn result(&mut self) -> Vec<u8>;
    fn raw_result(&mut self, n: usize) -> Vec<u8>;
    fn reset(&mut self);
    fn output_bytes(&self) -> usize;
    fn cl(&self) -> Box<dyn MObj> {
        panic!("clone unsupported")
    }
    fn as_any(&self) -> &dyn std::any::Any {
        panic!("HARNESS: clone_from unsupported")
    }
    /// `self.clone_from(src)` for the types that are Clone
    fn clf(&mut self, _src: &dyn MObj) {
        panic!("HARNESS: clone_from unsupported")
    }
    /// the type's own (inherent) reset / reset_with_key, where it has them (legacy BLAKE2 wrappers)
    fn reset_inherent(&mut self) {
        panic!("HARNESS: no inherent reset")
    }
    fn reset_key(&mut self, _k: &[u8]) {
        panic!("HARNESS: no inherent reset_with_key")
    }
}

macro_rules! legacy_b2_mac {
    ($name:ident, $t:ty) => {
        struct $name($t);
        impl MObj for $name {
            fn input(&mut self, d: &[u8]) {
                Mac::input(&mut self.0, d)
            }
            fn result(&mut self) -> Vec<u8> {
                Mac::result(&mut self.0).code().to_vec()
            }
            fn raw_result(&mut self, n: usize) -> Vec<u8> {
                let mut o = dirty(n);
                Mac::raw_result(&mut self.0, &mut o);
                o
            }
            fn reset(&mut self) {
                Mac::reset(&mut self.0)
            }
            fn output_bytes(&self) -> usize {
                Mac::output_bytes(&self.0)
            }
            fn cl(&self) -> Box<dyn MObj> {
                Box::new($name(self.0.clone()))
            }
            fn as_any(&self) -> &dyn std::any::Any {
                self
            }
            fn clf(&mut self, src: &dyn MObj) {
                let s = src.as_any().downcast_ref::<Self>().expect("HARNESS: clone_from between different types");
                self.0.clone_from(&s.0)
            }
            fn reset_inherent(&mut self) {
                self.0.reset()
            }
            fn reset_key(&mut self, k: &[u8]) {
                self.0.reset_with_key(k)
            }
        }
    };
}
legacy_b2_mac!(LB2bMac, cryptoxide::blake2b::Blake2b);
legacy_b2_mac!(LB2sMac, cryptoxide::blake2s::Blake2s);

struct WMac<M: Mac>(M);
impl<M: Mac> MObj for WMac<M> {
    fn input(&mut self, d: &[u8]) {
        self.0.input(d)
    }
    fn result(&mut self) -> Vec<u8> {
        self.0.result().code().to_vec()
    }
    fn raw_result(&mut self, n: usize) -> Vec<u8> {
        let mut o = dirty(n);
        self.0.raw_result(&mut o);
        o
    }
    fn reset(&mut self) {
        self.0.reset()
    }
    fn output_bytes(&self) -> usize {
        self.0.output_bytes()
    }
}
struct WMacC<M: Mac + Clone + 'static>(M);
impl<M: Mac + Clone + 'static> MObj for WMacC<M> {
    fn input(&mut self, d: &[u8]) {
        self.0.input(d)
    }
    fn result(&mut self) -> Vec<u8> {
        self.0.result().code().to_vec()
    }
    fn raw_result(&mut self, n: usize) -> Vec<u8> {
        let mut o = dirty(n);
        self.0.raw_result(&mut o);
        o
    }
    fn reset(&mut self) {
        self.0.reset()
    }
    fn output_bytes(&self) -> usize {
        self.0.output_bytes()
    }
    fn cl(&self) -> Box<dyn MObj> {
        Box::new(WMacC(self.0.clone()))
    }
    fn as_any(&self) -> &dyn std::any::Any {
        self
    }
    fn clf(&mut self, src: &dyn MObj) {
        let s = src.as_any().downcast_ref::<Self>().expect("HARNESS: clone_from between different types");
        self.0.clone_from(&s.0)
    }
}

/// legacy Digest objects behind a uniform interface
pub trait DigestObj {
    fn input(&mut self, d: &[u8]);
    fn result(&mut self, n: usize) -> Vec<u8>;
    fn reset(&mut self);
    fn output_bits(&self) -> usize;
    fn output_bytes(&self) -> usize;
    fn block_size(&self) -> usize;
    fn cl(&self) -> Box<dyn DigestObj>;
    fn as_any(&self) -> &dyn std::any::Any;
    fn clf(&mut self, src: &dyn DigestObj);
    fn reset_inherent(&mut self) {
        panic!("HARNESS: no inherent reset")
    }
    fn reset_key(&mut self, _k: &[u8]) {
        panic!("HARNESS: no inherent reset_with_key")
    }
}

macro_rules! legacy_b2_dig {
    ($name:ident, $t:ty) => {
        struct $name($t);
        impl DigestObj for $name {
            fn input(&mut self, d: &[u8]) {
                Digest::input(&mut self.0, d)
            }
            fn result(&mut self, n: usize) -> Vec<u8> {
                let mut o = dirty(n);
                Digest::result(&mut self.0, &mut o);
                o
            }
            fn reset(&mut self) {
                Digest::reset(&mut self.0)
            }
            fn output_bits(&self) -> usize {
                Digest::output_bits(&self.0)
            }
            fn output_bytes(&self) -> usize {
                Digest::output_bytes(&self.0)
            }
            fn block_size(&self) -> usize {
                Digest::block_size(&self.0)
            }
            fn cl(&self) -> Box<dyn DigestObj> {
                Box::new($name(self.0.clone()))
            }
            fn as_any(&self) -> &dyn std::any::Any {
                self
            }
            fn clf(&mut self, src: &dyn DigestObj) {
                let s = src.as_any().downcast_ref::<Self>().expect("HARNESS: clone_from between different types");
                self.0.clone_from(&s.0)
            }
            fn reset_inherent(&mut self) {
                self.0.reset()
            }
            fn reset_key(&mut self, k: &[u8]) {
                self.0.reset_with_key(k)
            }
        }
    };
}
legacy_b2_dig!(LB2bDig, cryptoxide::blake2b::Blake2b);
legacy_b2_dig!(LB2sDig, cryptoxide::blake2s::Blake2s);
struct WDig<D: Digest + Clone + 'static>(D);
impl<D: Digest + Clone + 'static> DigestObj for WDig<D> {
    fn input(&mut self, d: &[u8]) {
        self.0.input(d)
    }
    fn result(&mut self, n: usize) -> Vec<u8> {
        let mut o = dirty(n);
        self.0.result(&mut o);
        o
    }
    fn reset(&mut self) {
        self.0.reset()
    }
    fn output_bits(&self) -> usize {
        self.0.output_bits()
    }
    fn output_bytes(&self) -> usize {
        self.0.output_bytes()
    }
    fn block_size(&self) -> usize {
        self.0.block_size()
    }
    fn cl(&self) -> Box<dyn DigestObj> {
        Box::new(WDig(self.0.clone()))
    }
    fn as_any(&self) -> &dyn std::any::Any {
        self
    }
    fn clf(&mut self, src: &dyn DigestObj) {
        let s = src.as_any().downcast_ref::<Self>().expect("HARNESS: clone_from between different types");
        self.0.clone_from(&s.0)
    }
}

macro_rules! digest_dispatch {
    ($name:expr, $go:ident) => {{
        let p: Vec<&str> = $name.split(':').collect();
        match p[0] {
            "sha1" => $go!(cryptoxide::sha1::Sha1::new()),
            "sha224" => $go!(cryptoxide::sha2::Sha224::new()),
            "sha256" => $go!(cryptoxide::sha2::Sha256::new()),
            "sha384" => $go!(cryptoxide::sha2::Sha384::new()),
            "sha512" => $go!(cryptoxide::sha2::Sha512::new()),
            "sha512_224" => $go!(cryptoxide::sha2::Sha512Trunc224::new()),
            "sha512_256" => $go!(cryptoxide::sha2::Sha512Trunc256::new()),
            "sha3_224" => $go!(cryptoxide::sha3::Sha3_224::new()),
            "sha3_256" => $go!(cryptoxide::sha3::Sha3_256::new()),
            "sha3_384" => $go!(cryptoxide::sha3::Sha3_384::new()),
            "sha3_512" => $go!(cryptoxide::sha3::Sha3_512::new()),
            "keccak224" => $go!(cryptoxide::sha3::Keccak224::new()),
            "keccak256" => $go!(cryptoxide::sha3::Keccak256::new()),
            "keccak384" => $go!(cryptoxide::sha3::Keccak384::new()),
            "keccak512" => $go!(cryptoxide::sha3::Keccak512::new()),
            "ripemd160" => $go!(cryptoxide::ripemd160::Ripemd160::new()),
            "blake2b" => $go!(cryptoxide::blake2b::Blake2b::new(usz(p[1]))),
            "blake2s" => $go!(cryptoxide::blake2s::Blake2s::new(usz(p[1]))),
            _ => panic!("unknown digest {}", $name),
        }
    }};
}

pub fn new_digest(name: &str) -> Box<dyn DigestObj> {
    if let Some(n) = name.strip_prefix("blake2b:") {
        return Box::new(LB2bDig(cryptoxide::blake2b::Blake2b::new(usz(n))));
    }
    if let Some(n) = name.strip_prefix("blake2s:") {
        return Box::new(LB2sDig(cryptoxide::blake2s::Blake2s::new(usz(n))));
    }
    macro_rules! go {
        ($e:expr) => {
            Box::new(WDig($e)) as Box<dyn DigestObj>
        };
    }
    digest_dispatch!(name, go)
}
pub fn new_hmac(name: &str, key: &[u8]) -> Box<dyn MObj> {
    macro_rules! go {
        ($e:expr) => {
            Box::new(WMac(Hmac::new($e, key))) as Box<dyn MObj>
        };
    }
    digest_dispatch!(name, go)
}

/// generic helpers used by the KDF ops: run `f` with an Hmac over the named digest
pub fn pbkdf2_with(name: &str, pw: &[u8], salt: &[u8], c: u32, out: &mut [u8]) {
    // any Mac can serve as PRF: keyed BLAKE2 with an arbitrary tag length
    if let Some(n) = name.strip_prefix("b2bmac:") {
        let mut m = cryptoxide::blake2b::Blake2b::new_keyed(usz(n), pw);
        return cryptoxide::pbkdf2::pbkdf2(&mut m, salt, c, out);
    }
    if let Some(n) = name.strip_prefix("b2smac:") {
        let mut m = cryptoxide::blake2s::Blake2s::new_keyed(usz(n), pw);
        return cryptoxide::pbkdf2::pbkdf2(&mut m, salt, c, out);
    }
    macro_rules! go {
        ($e:expr) => {{
            let mut m = Hmac::new($e, pw);
            cryptoxide::pbkdf2::pbkdf2(&mut m, salt, c, out)
        }};
    }
    digest_dispatch!(name, go)
}
/// two derivations on ONE Mac object (pbkdf2 takes `&mut M`): the second must not depend on what the first left behind
pub fn pbkdf2_twice_with(name: &str, pw: &[u8], salt1: &[u8], c1: u32, out1: &mut [u8], salt2: &[u8], c2: u32, out2: &mut [u8]) {
    if let Some(n) = name.strip_prefix("b2bmac:") {
        let mut m = cryptoxide::blake2b::Blake2b::new_keyed(usz(n), pw);
        cryptoxide::pbkdf2::pbkdf2(&mut m, salt1, c1, out1);
        return cryptoxide::pbkdf2::pbkdf2(&mut m, salt2, c2, out2);
    }
    macro_rules! go {
        ($e:expr) => {{
            let mut m = Hmac::new($e, pw);
            cryptoxide::pbkdf2::pbkdf2(&mut m, salt1, c1, out1);
            cryptoxide::pbkdf2::pbkdf2(&mut m, salt2, c2, out2)
        }};
    }
    digest_dispatch!(name, go)
}
/// "soil/<data>[/fin]" : the digest object handed to HKDF has already absorbed <data> (and, with ":fin", has been finalised)
pub fn parse_soil(arg: Option<&&str>) -> Option<(Vec<u8>, bool)> {
    let a = arg?;
    let p: Vec<&str> = a.split('/').collect();
    assert!(p[0] == "soil");
    Some((expand(p[1]), p.len() > 2 && p[2] == "fin"))
}
fn soil<D: Digest>(mut d: D, pre: &Option<(Vec<u8>, bool)>) -> D {
    if let Some((data, fin)) = pre {
        d.input(data);
        if *fin {
            let mut o = dirty(d.output_bytes());
            d.result(&mut o);
        }
    }
    d
}
pub fn hkdf_extract_with(name: &str, salt: &[u8], ikm: &[u8], prk: &mut [u8], pre: &Option<(Vec<u8>, bool)>) {
    macro_rules! go {
        ($e:expr) => {
            cryptoxide::hkdf::hkdf_extract(soil($e, pre), salt, ikm, prk)
        };
    }
    digest_dispatch!(name, go)
}
pub fn hkdf_expand_with(name: &str, prk: &[u8], info: &[u8], okm: &mut [u8], pre: &Option<(Vec<u8>, bool)>) {
    macro_rules! go {
        ($e:expr) => {
            cryptoxide::hkdf::hkdf_expand(soil($e, pre), prk, info, okm)
        };
    }
    digest_dispatch!(name, go)
}

/// type syntax: poly1305 | hmac:<digest...> | b2bmac:<outlen> | b2smac:<outlen>
fn new_mac(ty: &str, key: &[u8]) -> Box<dyn MObj> {
    if ty == "poly1305" {
        let k = <&[u8; 32]>::try_from(key).expect("TYPE");
        return Box::new(WMacC(Poly1305::new(k)));
    }
    if let Some(d) = ty.strip_prefix("hmac:") {
        return new_hmac(d, key);
    }
    if let Some(n) = ty.strip_prefix("b2bmac:") {
        return Box::new(LB2bMac(cryptoxide::blake2b::Blake2b::new_keyed(usz(n), key)));
    }
    if let Some(n) = ty.strip_prefix("b2smac:") {
        return Box::new(LB2sMac(cryptoxide::blake2s::Blake2s::new_keyed(usz(n), key)));
    }
    panic!("unknown mac type {}", ty)
}

/// mac <type> <key> steps: i.O.D r.O rr.O.N x.O c.S.D ob.O
fn mac_history(a: &[&str]) -> Vec<String> {
    let mut out = Vec::new();
    let key = expand(a[1]);
    let mut objs: Vec<Option<Box<dyn MObj>>> = Vec::new();
    let r = std::panic::catch_unwind(std::panic::AssertUnwindSafe(|| new_mac(a[0], &key)));
    match r {
        Ok(o) => objs.push(Some(o)),
        Err(e) => {
            let is_type = e.downcast_ref::<String>().map(|s| s.starts_with("TYPE")).unwrap_or(false);
            out.push(if is_type { "TYPE".into() } else { "PANIC".into() });
            return out;
        }
    }
    for s in &a[2..] {
        let p: Vec<&str> = s.split('.').collect();
        let o = usz(p[1]);
        let cont = match p[0] {
            "i" => {
                let d = skew(&expand(p[2]));
                step(&mut out, || {
                    objs[o].as_mut().unwrap().input(&d);
                    None
                })
            }
            "r" => step(&mut out, || Some(hex(&objs[o].as_mut().unwrap().result()))),
            "rr" => {
                let n = usz(p[2]);
                step(&mut out, || Some(hex(&objs[o].as_mut().unwrap().raw_result(n))))
            }
            // rrc.O.N : raw_result into an N-byte buffer; a refusal (panic) is logged and the history CONTINUES on the same object
            "rrc" => {
                let n = usz(p[2]);
                step(&mut out, || Some(hex(&objs[o].as_mut().unwrap().raw_result(n))));
                true
            }
            "x" => step(&mut out, || {
                objs[o].as_mut().unwrap().reset();
                None
            }),
            "xi" => step(&mut out, || {
                objs[o].as_mut().unwrap().reset_inherent();
                None
            }),
            "xk" => {
                let k = expand(p[2]);
                step(&mut out, || {
                    objs[o].as_mut().unwrap().reset_key(&k);
                    None
                })
            }
            "ob" => step(&mut out, || Some(format!("{}", objs[o].as_ref().unwrap().output_bytes()))),
            // cf.DST.SRC : objs[DST].clone_from(&objs[SRC])
            "cf" => {
                let src = usz(p[2]);
                step(&mut out, || {
                    let s = objs[src].as_ref().unwrap().cl();
                    objs[o].as_mut().unwrap().clf(s.as_ref());
                    None
                })
            }
            "c" => {
                let dst = usz(p[2]);
                step(&mut out, || {
                    let c = objs[o].as_ref().unwrap().cl();
                    while objs.len() <= dst {
                        objs.push(None);
                    }
                    objs[dst] = Some(c);
                    None
                })
            }
            _ => panic!("bad mac step {}", s),
        };
        if !cont {
            break;
        }
    }
    out
}

/// dig <name> steps: i.O.D r.O[.N] x.O c.S.D ob.O bs.O obits.O
fn dig_history(a: &[&str]) -> Vec<String> {
    let mut out = Vec::new();
    let mut objs: Vec<Option<Box<dyn DigestObj>>> = Vec::new();
    if !step(&mut out, || {
        objs.push(Some(new_digest(a[0])));
        None
    }) {
        return out;
    }
    for s in &a[1..] {
        let p: Vec<&str> = s.split('.').collect();
        let o = usz(p[1]);
        let cont = match p[0] {
            "i" => {
                let d = skew(&expand(p[2]));
                step(&mut out, || {
                    objs[o].as_mut().unwrap().input(&d);
                    None
                })
            }
            "r" => step(&mut out, || {
                let ob = objs[o].as_mut().unwrap();
                let n = if p.len() > 2 { usz(p[2]) } else { ob.output_bytes() };
                Some(hex(&ob.result(n)))
            }),
            // rc.O.N : result into an N-byte buffer; a refusal (panic) is logged and the history CONTINUES on the same object
            "rc" => {
                let n = usz(p[2]);
                step(&mut out, || Some(hex(&objs[o].as_mut().unwrap().result(n))));
                true
            }
            "x" => step(&mut out, || {
                objs[o].as_mut().unwrap().reset();
                None
            }),
            "xi" => step(&mut out, || {
                objs[o].as_mut().unwrap().reset_inherent();
                None
            }),
            "xk" => {
                let k = expand(p[2]);
                step(&mut out, || {
                    objs[o].as_mut().unwrap().reset_key(&k);
                    None
                })
            }
            "ob" => step(&mut out, || Some(format!("{}", objs[o].as_ref().unwrap().output_bytes()))),
            "obits" => step(&mut out, || Some(format!("{}", objs[o].as_ref().unwrap().output_bits()))),
            "bs" => step(&mut out, || Some(format!("{}", objs[o].as_ref().unwrap().block_size()))),
            // cf.DST.SRC : objs[DST].clone_from(&objs[SRC])
            "cf" => {
                let src = usz(p[2]);
                step(&mut out, || {
                    let s = objs[src].as_ref().unwrap().cl();
                    objs[o].as_mut().unwrap().clf(s.as_ref());
                    None
                })
            }
            "c" => {
                let dst = usz(p[2]);
                step(&mut out, || {
                    let c = objs[o].as_ref().unwrap().cl();
                    while objs.len() <= dst {
                        objs.push(None);
                    }
                    objs[dst] = Some(c);
                    None
                })
            }
            _ => panic!("bad dig step {}", s),
        };
        if !cont {
            break;
        }
    }
    out
}

pub fn run(op: &str, a: &[&str]) -> Vec<String> {
    match op {
        "mac" => mac_history(a),
        "dig" => dig_history(a),
        _ => unreachable!(),
    }
}
