//! Data spec expansion shared with cxv/codec.py
pub fn prng_bytes(seed: u64, n: usize) -> Vec<u8> {
    let mut x = seed.wrapping_mul(0x9E3779B97F4A7C15).wrapping_add(0xD1B54A32D192ED03);
    if x == 0 {
        x = 1;
    }
    let mut out = Vec::with_capacity(n + 8);
    while out.len() < n {
        x ^= x >> 12;
        x ^= x << 25;
        x ^= x >> 27;
        out.extend_from_slice(&x.wrapping_mul(0x2545F4914F6CDD1D).to_le_bytes());
    }
    out.truncate(n);
    out
}

/// a copy of `d` that starts `k = (len + d[0]) % 16` bytes after a 64-byte boundary (k = 0 for empty data): input handed to the
/// library must not have to be aligned, and block functions that read the caller's memory in place see every alignment
pub struct Skewed {
    buf: Vec<u8>,
    off: usize,
    len: usize,
}
impl std::ops::Deref for Skewed {
    type Target = [u8];
    fn deref(&self) -> &[u8] {
        &self.buf[self.off..self.off + self.len]
    }
}
pub fn skew(d: &[u8]) -> Skewed {
    let k = if d.is_empty() { 0 } else { (d.len() + d[0] as usize) % 16 };
    let mut buf = vec![0xc3u8; d.len() + 64 + 16];
    let pad = (64 - (buf.as_ptr() as usize) % 64) % 64;
    let off = pad + k;
    buf[off..off + d.len()].copy_from_slice(d);
    Skewed { buf, off, len: d.len() }
}

pub fn expand(spec: &str) -> Vec<u8> {
    if spec == "-" {
        return vec![];
    }
    let c = spec.as_bytes()[0];
    match c {
        b'@' => {
            let mut it = spec[1..].split(':');
            let s: u64 = it.next().unwrap().parse().unwrap();
            let n: usize = it.next().unwrap().parse().unwrap();
            prng_bytes(s, n)
        }
        b'=' => {
            let mut it = spec[1..].split(':');
            let b = u8::from_str_radix(it.next().unwrap(), 16).unwrap();
            let n: usize = it.next().unwrap().parse().unwrap();
            vec![b; n]
        }
        b'%' => {
            let mut it = spec[1..].split(':');
            let s: u64 = it.next().unwrap().parse().unwrap();
            let per: usize = it.next().unwrap().parse().unwrap();
            let n: usize = it.next().unwrap().parse().unwrap();
            let blk = prng_bytes(s, per);
            let mut out = Vec::with_capacity(n + per);
            while out.len() < n {
                out.extend_from_slice(&blk);
            }
            out.truncate(n);
            out
        }
        _ => unhex(spec),
    }
}

pub fn unhex(s: &str) -> Vec<u8> {
    let b = s.as_bytes();
    assert!(b.len() % 2 == 0, "odd hex");
    fn v(c: u8) -> u8 {
        match c {
            b'0'..=b'9' => c - b'0',
            b'a'..=b'f' => c - b'a' + 10,
            b'A'..=b'F' => c - b'A' + 10,
            _ => panic!("bad hex"),
        }
    }
    (0..b.len() / 2).map(|i| (v(b[2 * i]) << 4) | v(b[2 * i + 1])).collect()
}

pub fn hex(b: &[u8]) -> String {
    if b.is_empty() {
        return "-".to_string();
    }
    const C: &[u8; 16] = b"0123456789abcdef";
    let mut s = String::with_capacity(b.len() * 2);
    for x in b {
        s.push(C[(x >> 4) as usize] as char);
        s.push(C[(x & 15) as usize] as char);
    }
    s
}

pub fn tf(b: bool) -> String {
    if b { "T".into() } else { "F".into() }
}

pub fn usz(s: &str) -> usize {
    s.parse().unwrap()
}
pub fn u64p(s: &str) -> u64 {
    if let Some(h) = s.strip_prefix("0x") {
        u64::from_str_radix(h, 16).unwrap()
    } else {
        s.parse().unwrap()
    }
}
pub fn u128p(s: &str) -> u128 {
    if let Some(h) = s.strip_prefix("0x") {
        u128::from_str_radix(h, 16).unwrap()
    } else {
        s.parse().unwrap()
    }
}

/// Output buffer handed to the crate: deliberately NOT zeroed, so that a routine that accumulates into its destination
/// instead of overwriting it (or leaves part of it untouched) produces a visibly wrong result.
pub fn dirty(n: usize) -> Vec<u8> {
    (0..n).map(|i| 0xA5u8 ^ (i as u8).wrapping_mul(29) ^ ((i >> 8) as u8)).collect()
}
