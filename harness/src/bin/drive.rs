//! drive <casefile> [<shard> <nshards>] : executes every line (of this shard) and prints "<lineno> <tokens...>"
use std::io::{BufRead, BufWriter, Write};

fn main() {
    std::panic::set_hook(Box::new(|_| {}));
    let args: Vec<String> = std::env::args().collect();
    let path = &args[1];
    let (shard, nshards): (usize, usize) = if args.len() >= 4 {
        (args[2].parse().unwrap(), args[3].parse().unwrap())
    } else {
        (0, 1)
    };
    let f = std::fs::File::open(path).expect("case file");
    let out = std::io::stdout();
    let mut out = BufWriter::new(out.lock());
    for (i, line) in std::io::BufReader::new(f).lines().enumerate() {
        if i % nshards != shard {
            continue;
        }
        let line = line.unwrap();
        if line.is_empty() || line.starts_with('#') {
            continue;
        }
        // strip trailing "#..." annotations
        let body = match line.find(" #") {
            Some(p) => &line[..p],
            None => &line[..],
        };
        let toks = cxmon::guard(|| cxmon::run_line(body));
        writeln!(out, "{} {}", i, toks.join(" ")).unwrap();
        out.flush().unwrap();
    }
    out.flush().unwrap();
}
