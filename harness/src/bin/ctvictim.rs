//! C19 victim: ctvictim <target> <secrets-file> [signal]
//! Every secret is run through the single function `ct_region` (same code addresses for every secret).
//! With `signal`, SIGUSR1 is raised immediately before and after each call (markers for the ptrace tracer).
#[cfg(feature = "full")]
use cryptoxide::chacha20::{ChaCha20, XChaCha};
#[cfg(feature = "full")]
use cryptoxide::chacha20poly1305::{ChaCha20Poly1305, Tag};
#[cfg(feature = "full")]
use cryptoxide::hmac::Hmac;
#[cfg(feature = "full")]
use cryptoxide::mac::{Mac, MacResult};
#[cfg(feature = "full")]
use cryptoxide::poly1305::Poly1305;
#[cfg(feature = "full")]
use cryptoxide::salsa20::Salsa20;
use std::hint::black_box;

// Without the "full" feature (curve-only build of the library) only the curve targets exist; the MAC / tag types are stand-ins.
#[cfg(not(feature = "full"))]
pub struct MacResult(Vec<u8>);
#[cfg(not(feature = "full"))]
impl MacResult {
    pub fn new(b: &[u8]) -> Self {
        MacResult(b.to_vec())
    }
    pub fn code(&self) -> &[u8] {
        &self.0
    }
}
#[cfg(not(feature = "full"))]
pub struct Tag(pub [u8; 16]);

extern "C" {
    fn raise(sig: i32) -> i32;
}

/// valgrind client request (no-op when not running under valgrind)
#[inline(never)]
fn vg_request(req: u64, addr: *const u8, len: usize) -> u64 {
    let args: [u64; 6] = [req, addr as u64, len as u64, 0, 0, 0];
    let mut result: u64 = 0;
    unsafe {
        std::arch::asm!(
            "rol rdi, 3",
            "rol rdi, 13",
            "rol rdi, 61",
            "rol rdi, 51",
            "xchg rbx, rbx",
            in("rax") args.as_ptr(),
            inout("rdx") result,
            out("rdi") _,
            options(nostack)
        );
    }
    result
}
const MAKE_MEM_UNDEFINED: u64 = 0x4d43_0001;
const MAKE_MEM_DEFINED: u64 = 0x4d43_0002;

// A bump allocator: the allocation path depends only on (size, alignment), never on heap history, so that allocator
// internals (tcache / bin state of the libc malloc) cannot make the traces of two iterations differ.
mod bump {
    use std::alloc::{GlobalAlloc, Layout};
    use std::cell::UnsafeCell;
    use std::sync::atomic::{AtomicUsize, Ordering};
    const ARENA: usize = 256 << 20;
    #[repr(align(4096))]
    pub struct Arena(UnsafeCell<[u8; ARENA]>);
    unsafe impl Sync for Arena {}
    static MEM: Arena = Arena(UnsafeCell::new([0u8; ARENA]));
    static NEXT: AtomicUsize = AtomicUsize::new(0);
    pub struct Bump;
    unsafe impl GlobalAlloc for Bump {
        unsafe fn alloc(&self, l: Layout) -> *mut u8 {
            let a = l.align().max(16);
            let cur = NEXT.load(Ordering::Relaxed);
            let start = (cur + a - 1) & !(a - 1);
            let end = start + l.size();
            if end > ARENA {
                return std::ptr::null_mut();
            }
            NEXT.store(end, Ordering::Relaxed);
            (MEM.0.get() as *mut u8).add(start)
        }
        unsafe fn dealloc(&self, _p: *mut u8, _l: Layout) {}
    }
}
#[global_allocator]
static GLOBAL: bump::Bump = bump::Bump;

pub struct Prepared {
    mac_secret: MacResult,
    mac_public: MacResult,
    tag_secret: Tag,
    tag_public: Tag,
    msg: Vec<u8>,
    buf: Vec<u8>,
    big: Vec<u8>,
}

pub const TARGETS: &[&str] = &[
    "x25519", "x25519_base", "ed_keypair", "ed_sign", "ed_sign_ext", "poly1305", "poly1305_wrapmsg", "hmac_sha256", "hmac_sha512", "chacha20", "xchacha20", "salsa20",
    "aead_encrypt", "macresult_eq16", "macresult_eq20", "macresult_eq32", "macresult_eq64", "tag_eq", "leaky_demo",
    // 19..
    "ed_sign_ext_raw", "ed_ext_pub", "ed_exchange", "x_dh", "x_base", "hmac_sha1", "hmac_sha3_256", "hmac_blake2b", "hmac_ripemd160", "hmac_sha256_longmsg",
    // 29..
    "chacha8_k16", "chacha12", "chachaoriginal", "xsalsa20", "salsa20_k16", "aead_decrypt", "aead_incremental", "poly1305_chunks", "blake2b_mac", "blake2s_mac",
    // 39..
    "macresult_eq28", "macresult_eq48", "tag_cteq", "hmac_sha512_key128",
    // 43..
    "hmac_sha256_big", "blake2b_mac_big", "blake2s_mac_big",
];

#[no_mangle]
#[inline(never)]
pub extern "C" fn ct_region(target: u32, secret: *const u8, out: *mut u8, prep: *mut Prepared) {
    let s: &[u8; 32] = unsafe { &*(secret as *const [u8; 32]) };
    let o: &mut [u8; 64] = unsafe { &mut *(out as *mut [u8; 64]) };
    let p: &mut Prepared = unsafe { &mut *prep };
    match target {
        0 => o[..32].copy_from_slice(&cryptoxide::curve25519::curve25519(s, &PUB_U)),
        1 => o[..32].copy_from_slice(&cryptoxide::curve25519::curve25519_base(s)),
        2 => {
            let (kp, _pk) = cryptoxide::ed25519::keypair(s);
            o.copy_from_slice(&kp);
        }
        3 => {
            let (kp, _pk) = cryptoxide::ed25519::keypair(s);
            *o = cryptoxide::ed25519::signature(&p.msg[..100], &kp);
        }
        4 => {
            let mut ext = [0u8; 64];
            ext[..32].copy_from_slice(s);
            ext[32..].copy_from_slice(s);
            ext[0] &= 248;
            ext[31] &= 63;
            ext[31] |= 64;
            *o = cryptoxide::ed25519::signature_extended(&p.msg[..100], &ext);
        }
        #[cfg(feature = "full")]
        5 | 6 => {
            let mut m = Poly1305::new(s);
            if target == 5 {
                m.input(&p.msg[..100]);
            } else {
                m.input(&WRAP_MSG);
            }
            m.raw_result(&mut o[..16]);
        }
        #[cfg(feature = "full")]
        7 => {
            let mut h = Hmac::new(cryptoxide::sha2::Sha256::new(), &s[..]);
            h.input(&p.msg[..100]);
            h.raw_result(&mut o[..32]);
        }
        #[cfg(feature = "full")]
        8 => {
            let mut h = Hmac::new(cryptoxide::sha2::Sha512::new(), &s[..]);
            h.input(&p.msg[..100]);
            h.raw_result(&mut o[..64]);
        }
        #[cfg(feature = "full")]
        9 => {
            let mut c = ChaCha20::new(&s[..], &[7u8; 12]);
            p.buf.copy_from_slice(&p.msg);
            c.process_mut(&mut p.buf[..200]);
            o.copy_from_slice(&p.buf[..64]);
        }
        #[cfg(feature = "full")]
        10 => {
            let mut c = XChaCha::<20>::new(s, &[7u8; 24]);
            p.buf.copy_from_slice(&p.msg);
            c.process_mut(&mut p.buf[..200]);
            o.copy_from_slice(&p.buf[..64]);
        }
        #[cfg(feature = "full")]
        11 => {
            let mut c = Salsa20::new(&s[..], &[7u8; 8]);
            p.buf.copy_from_slice(&p.msg);
            c.process_mut(&mut p.buf[..200]);
            o.copy_from_slice(&p.buf[..64]);
        }
        #[cfg(feature = "full")]
        12 => {
            let mut c = ChaCha20Poly1305::new(&s[..], &[9u8; 12], &p.msg[..13]);
            let (a, b) = p.buf.split_at_mut(150);
            let _ = b;
            c.encrypt(&p.msg[..150], a, &mut o[..16]);
        }
        #[cfg(feature = "full")]
        13 | 14 | 15 | 16 => o[0] = (black_box(&p.mac_secret) == black_box(&p.mac_public)) as u8,
        #[cfg(feature = "full")]
        17 => o[0] = (black_box(&p.tag_secret) == black_box(&p.tag_public)) as u8,
        19 | 20 => {
            // extended secret as supplied, not clamped: scalar values below and above the group order; only bit 255 is cleared, because
            // the fixed-base multiplication documents its operand range as < 2^255
            let mut ext = [0u8; 64];
            ext[..32].copy_from_slice(s);
            ext[31] &= 0x7f;
            ext[32..].copy_from_slice(&PUBLIC_TAG[..32]);
            if target == 19 {
                *o = cryptoxide::ed25519::signature_extended(&p.msg[..100], &ext);
            } else {
                o[..32].copy_from_slice(&cryptoxide::ed25519::extended_to_public(&ext));
            }
        }
        21 => {
            let (kp, _pk) = cryptoxide::ed25519::keypair(s);
            let mut sk = [0u8; 32];
            sk.copy_from_slice(&kp[..32]);
            o[..32].copy_from_slice(&cryptoxide::ed25519::exchange(&PUB_ED, &sk));
        }
        22 => {
            let sk = cryptoxide::x25519::SecretKey::from(*s);
            let pk = cryptoxide::x25519::PublicKey::from(PUB_U);
            let ss: [u8; 32] = cryptoxide::x25519::dh(&sk, &pk).into();
            o[..32].copy_from_slice(&ss);
        }
        23 => {
            let sk = cryptoxide::x25519::SecretKey::from(*s);
            let pk: [u8; 32] = cryptoxide::x25519::base(&sk).into();
            o[..32].copy_from_slice(&pk);
        }
        #[cfg(feature = "full")]
        24 => {
            let mut h = Hmac::new(cryptoxide::sha1::Sha1::new(), &s[..]);
            h.input(&p.msg[..100]);
            h.raw_result(&mut o[..20]);
        }
        #[cfg(feature = "full")]
        25 => {
            let mut h = Hmac::new(cryptoxide::sha3::Sha3_256::new(), &s[..]);
            h.input(&p.msg[..150]);
            h.raw_result(&mut o[..32]);
        }
        #[cfg(feature = "full")]
        26 => {
            let mut h = Hmac::new(cryptoxide::blake2b::Blake2b::new(64), &s[..]);
            h.input(&p.msg[..150]);
            h.raw_result(&mut o[..64]);
        }
        #[cfg(feature = "full")]
        27 => {
            let mut h = Hmac::new(cryptoxide::ripemd160::Ripemd160::new(), &s[..]);
            h.input(&p.msg[..100]);
            h.raw_result(&mut o[..20]);
        }
        #[cfg(feature = "full")]
        28 => {
            let mut h = Hmac::new(cryptoxide::sha2::Sha256::new(), &s[..]);
            h.input(&p.msg[..7]);
            h.input(&p.msg[7..256]);
            h.input(&p.msg[..64]);
            h.raw_result(&mut o[..32]);
        }
        #[cfg(feature = "full")]
        29 => {
            let mut c = cryptoxide::chacha20::ChaCha::<8>::new(&s[..16], &[7u8; 12]);
            p.buf.copy_from_slice(&p.msg);
            c.process_mut(&mut p.buf[..200]);
            o.copy_from_slice(&p.buf[..64]);
        }
        #[cfg(feature = "full")]
        30 => {
            let mut c = cryptoxide::chacha20::ChaCha::<12>::new(&s[..], &[7u8; 12]);
            c.process(&p.msg[..130], &mut p.buf[..130]);
            c.process(&p.msg[130..131], &mut p.buf[130..131]);
            o.copy_from_slice(&p.buf[..64]);
        }
        #[cfg(feature = "full")]
        31 => {
            let mut c = cryptoxide::chacha20::ChaChaOriginal::<20>::new(&s[..], &[7u8; 8]);
            p.buf.copy_from_slice(&p.msg);
            c.process_mut(&mut p.buf[..200]);
            o.copy_from_slice(&p.buf[..64]);
        }
        #[cfg(feature = "full")]
        32 => {
            let mut c = cryptoxide::salsa20::XSalsa20::new(s, &[7u8; 24]);
            p.buf.copy_from_slice(&p.msg);
            c.process_mut(&mut p.buf[..200]);
            o.copy_from_slice(&p.buf[..64]);
        }
        #[cfg(feature = "full")]
        33 => {
            let mut c = cryptoxide::salsa20::Salsa::<12>::new(&s[..16], &[7u8; 8]);
            p.buf.copy_from_slice(&p.msg);
            c.process_mut(&mut p.buf[..200]);
            o.copy_from_slice(&p.buf[..64]);
        }
        #[cfg(feature = "full")]
        34 => {
            // decryption under a secret key: the (public) ciphertext and tag do not verify, for every key alike
            let mut c = ChaCha20Poly1305::new(&s[..], &[9u8; 12], &p.msg[..13]);
            let (a, _b) = p.buf.split_at_mut(150);
            o[0] = c.decrypt(&p.msg[..150], a, &PUBLIC_TAG[..16]) as u8;
        }
        #[cfg(feature = "full")]
        35 => {
            let mut ctx = cryptoxide::chacha20poly1305::Context::<20>::new(&s[..], &[9u8; 12]);
            ctx.add_data(&p.msg[..5]);
            ctx.add_data(&p.msg[5..40]);
            let mut e = ctx.to_encryption();
            p.buf.copy_from_slice(&p.msg);
            e.encrypt_mut(&mut p.buf[..70]);
            let (a, b) = p.buf.split_at_mut(128);
            e.encrypt(&a[70..100], &mut b[..30]);
            let tag = e.finalize();
            o[..16].copy_from_slice(&tag.0);
        }
        #[cfg(feature = "full")]
        36 => {
            let mut m = Poly1305::new(s);
            m.input(&p.msg[..7]);
            m.input(&p.msg[7..23]);
            m.input(&p.msg[23..56]);
            m.input(&p.msg[56..57]);
            m.input(&p.msg[57..137]);
            m.raw_result(&mut o[..16]);
        }
        #[cfg(feature = "full")]
        37 => {
            let mut m = cryptoxide::blake2b::Blake2b::new_keyed(32, &s[..]);
            m.input(&p.msg[..200]);
            m.raw_result(&mut o[..32]);
        }
        #[cfg(feature = "full")]
        38 => {
            let mut m = cryptoxide::blake2s::Blake2s::new_keyed(32, &s[..]);
            m.input(&p.msg[..200]);
            m.raw_result(&mut o[..32]);
        }
        #[cfg(feature = "full")]
        39 | 40 => o[0] = (black_box(&p.mac_secret) == black_box(&p.mac_public)) as u8,
        #[cfg(feature = "full")]
        41 => {
            use cryptoxide::constant_time::CtEqual;
            let c = black_box(&p.tag_secret).ct_eq(black_box(&p.tag_public));
            o[0] = c.is_true() as u8;
        }
        #[cfg(feature = "full")]
        42 => {
            // key longer than the block: HMAC hashes it first (the secret is repeated to 160 bytes, a public length)
            let mut k = [0u8; 160];
            for i in 0..160 {
                k[i] = s[i % 32];
            }
            let mut h = Hmac::new(cryptoxide::sha2::Sha512::new(), &k[..]);
            h.input(&p.msg[..100]);
            h.raw_result(&mut o[..64]);
        }
        #[cfg(feature = "full")]
        43 => {
            // one input of 1500 bytes: the multi-block (4-way / 8-way vectorised, when compiled in) SHA-256 path
            let mut h = Hmac::new(cryptoxide::sha2::Sha256::new(), &s[..]);
            h.input(&p.big[3..1503]);
            h.raw_result(&mut o[..32]);
        }
        #[cfg(feature = "full")]
        44 => {
            let mut m = cryptoxide::blake2b::Blake2b::new_keyed(64, &s[..]);
            m.input(&p.big[1..1001]);
            m.raw_result(&mut o[..64]);
        }
        #[cfg(feature = "full")]
        45 => {
            let mut m = cryptoxide::blake2s::Blake2s::new_keyed(32, &s[..]);
            m.input(&p.big[1..1001]);
            m.raw_result(&mut o[..32]);
        }
        18 => {
            // deliberately leaky comparison, used only to prove that the monitors can see a leak
            let t = [7u8; 32];
            let mut eq = 1u8;
            for i in 0..32 {
                if black_box(s[i]) != t[i] {
                    eq = 0;
                    break;
                }
            }
            o[0] = eq;
        }
        _ => {}
    }
}

const PUB_U: [u8; 32] = [
    0xe6, 0xdb, 0x68, 0x67, 0x58, 0x30, 0x30, 0xdb, 0x35, 0x94, 0xc1, 0xa4, 0x24, 0xb1, 0x5f, 0x7c, 0x72, 0x66, 0x24, 0xec, 0x26, 0xb3, 0x35, 0x3b, 0x10, 0xa9, 0x03, 0xa6, 0xd0, 0xab, 0x1c, 0x4c,
];
// a public Ed25519 key (the RFC 8032 test 1 public key)
const PUB_ED: [u8; 32] = [
    0xd7, 0x5a, 0x98, 0x01, 0x82, 0xb1, 0x0a, 0xb7, 0xd5, 0x4b, 0xfe, 0xd3, 0xc9, 0x64, 0x07, 0x3a, 0x0e, 0xe1, 0x72, 0xf3, 0xda, 0xa6, 0x23, 0x25, 0xaf, 0x02, 0x1a, 0x68, 0xf7, 0x07, 0x51, 0x1a,
];
// public message chosen so that for r = 1 the accumulator ends at 2^130 - 6 (top limb all ones): ff*48 || (2^128 - 8)
const WRAP_MSG: [u8; 64] = {
    let mut m = [0xffu8; 64];
    m[48] = 0xf8;
    m
};

pub const PUBLIC_TAG: [u8; 64] = {
    let mut t = [0u8; 64];
    let mut i = 0;
    while i < 64 {
        t[i] = (i as u8).wrapping_mul(37).wrapping_add(11);
        i += 1;
    }
    t
};

fn unhex(s: &str) -> Vec<u8> {
    (0..s.len() / 2).map(|i| u8::from_str_radix(&s[2 * i..2 * i + 2], 16).unwrap()).collect()
}

fn main() {
    let args: Vec<String> = std::env::args().collect();
    let tname = &args[1];
    let target = TARGETS.iter().position(|t| t == tname).expect("unknown target") as u32;
    let signal = args.len() > 3 && args[3] == "signal";
    let taint = args.len() > 3 && args[3] == "taint";
    let secrets: Vec<Vec<u8>> = std::fs::read_to_string(&args[2]).unwrap().lines().filter(|l| !l.is_empty()).map(|l| unhex(l.trim())).collect();
    let maclen = match target {
        13 => 16,
        14 => 20,
        15 => 32,
        16 => 64,
        39 => 28,
        40 => 48,
        _ => 32,
    };
    let msg: Vec<u8> = (0..256usize).map(|i| (i * 131 + 7) as u8).collect();
    let mut prep = Prepared {
        mac_secret: MacResult::new(&PUBLIC_TAG[..maclen]),
        mac_public: MacResult::new(&PUBLIC_TAG[..maclen]),
        tag_secret: Tag([0u8; 16]),
        tag_public: Tag(<[u8; 16]>::try_from(&PUBLIC_TAG[..16]).unwrap()),
        msg: msg.clone(),
        buf: vec![0u8; 256],
        big: (0..2048usize).map(|i| (i * 197 + 13) as u8).collect(),
    };
    let mut out = [0u8; 64];
    let mut sec = [0u8; 64];
    // untimed warm-up (lazy binding, allocator state)
    let warm = [3u8; 64];
    for _ in 0..2 {
        ct_region(target, warm.as_ptr(), out.as_mut_ptr(), &mut prep);
    }
    let mut acc = 0u8;
    for s in &secrets {
        sec.fill(0);
        sec[..s.len().min(64)].copy_from_slice(&s[..s.len().min(64)]);
        if (13..=16).contains(&target) || target == 39 || target == 40 {
            prep.mac_secret = MacResult::new(&sec[..maclen]);
        }
        if target == 17 || target == 41 {
            prep.tag_secret = Tag(<[u8; 16]>::try_from(&sec[..16]).unwrap());
        }
        if signal {
            unsafe { raise(10) };
        }
        if taint {
            // mark the secret "undefined": memcheck then reports every conditional jump that depends on it
            vg_request(MAKE_MEM_UNDEFINED, sec.as_ptr(), 64);
            if (13..=16).contains(&target) || target == 39 || target == 40 {
                let c = prep.mac_secret.code();
                vg_request(MAKE_MEM_UNDEFINED, c.as_ptr(), c.len());
            }
            if target == 17 || target == 41 {
                vg_request(MAKE_MEM_UNDEFINED, prep.tag_secret.0.as_ptr(), 16);
            }
        }
        ct_region(target, sec.as_ptr(), out.as_mut_ptr(), &mut prep);
        if taint {
            vg_request(MAKE_MEM_DEFINED, out.as_ptr(), 64);
            vg_request(MAKE_MEM_DEFINED, sec.as_ptr(), 64);
            vg_request(MAKE_MEM_DEFINED, prep.buf.as_ptr(), prep.buf.len());
        }
        if signal {
            unsafe { raise(10) };
        }
        acc ^= black_box(&out).iter().fold(0, |a, b| a ^ b);
    }
    println!("done {} {}", secrets.len(), acc);
}
