//! constant-time helper truth tables
use crate::codec::*;
use cryptoxide::chacha20poly1305::Tag;
use cryptoxide::constant_time::{verif, Choice, CtEqual, CtGreater, CtLesser, CtOption, CtZero};
use cryptoxide::mac::MacResult;
use std::convert::TryFrom;

fn ch(c: Choice) -> String {
    // report the three observers; they must agree
    let a = c.is_true();
    let b = c.is_false();
    let d: bool = c.into();
    if a == d && a != b { tf(a) } else { format!("INCONSISTENT:{}:{}:{}", a, b, d) }
}
/// a Choice with the given truth value, built from the public API only
fn mkchoice(b: bool) -> Choice {
    (if b { 0u64 } else { 1u64 }).ct_zero()
}
/// "<0|1>[r<k>]": a Choice with the given truth value produced along route k (default 0) - a consumer (selector, option,
/// algebra) must behave the same however the Choice came into being
fn mkroute(spec: &str) -> Choice {
    let b = spec.as_bytes()[0] == b'1';
    let k: usize = if spec.len() > 2 { spec[2..].parse().unwrap() } else { 0 };
    let two = [1u8, 2u8];
    let other = [1u8, 3u8];
    match k {
        0 => mkchoice(b),
        1 => mkchoice(!b).negate(),
        2 => mkchoice(b).negate().negate(),
        3 => 7u64.ct_eq(if b { 7 } else { 8 }),
        4 => 7u64.ct_ne(if b { 8 } else { 7 }),
        5 => (&two).ct_ne(if b { &other } else { &two }),
        6 => u64::ct_ge(if b { 3 } else { 2 }, 3),
        7 => u64::ct_le(3, if b { 3 } else { 2 }),
        8 => mkchoice(b) | mkchoice(true).negate(),
        9 => mkchoice(!b).negate() ^ mkchoice(false),
        10 => mkchoice(!b).negate() & mkchoice(false).negate(),
        11 => <&[u8; 2]>::ct_ge(if b { &other } else { &two }, &other),
        12 => (&two[..]).ct_ne(if b { &other[..] } else { &two[..] }),
        13 => (&two).ct_nonzero() & mkchoice(b),
        14 => u64::ct_gt(if b { 1u64 << 63 } else { 0 }, 5),
        15 => u64::ct_lt(5, if b { u64::MAX } else { 5 }),
        _ => panic!("route {}", k),
    }
}
pub const NROUTES: usize = 16;
#[repr(C, align(64))]
struct Aligned([u8; 128]);
#[repr(C, align(32))]
struct TagRec<const K: usize> {
    hdr: [u8; K],
    tag: Tag,
}
trait TagHolder {
    fn tag(&self) -> &Tag;
}
impl<const K: usize> TagHolder for TagRec<K> {
    fn tag(&self) -> &Tag {
        assert!(self.hdr.iter().all(|b| *b == 0));
        &self.tag
    }
}
fn u64s(v: &[u8]) -> Vec<u64> {
    v.chunks(8).map(|c| u64::from_le_bytes(<[u8; 8]>::try_from(c).unwrap())).collect()
}

macro_rules! with_n {
    ($n:expr, $f:ident) => {
        match $n {
            0 => $f!(0),
            1 => $f!(1),
            2 => $f!(2),
            3 => $f!(3),
            4 => $f!(4),
            5 => $f!(5),
            6 => $f!(6),
            7 => $f!(7),
            8 => $f!(8),
            9 => $f!(9),
            10 => $f!(10),
            11 => $f!(11),
            12 => $f!(12),
            13 => $f!(13),
            14 => $f!(14),
            15 => $f!(15),
            16 => $f!(16),
            17 => $f!(17),
            18 => $f!(18),
            19 => $f!(19),
            20 => $f!(20),
            21 => $f!(21),
            22 => $f!(22),
            23 => $f!(23),
            24 => $f!(24),
            25 => $f!(25),
            26 => $f!(26),
            27 => $f!(27),
            28 => $f!(28),
            29 => $f!(29),
            30 => $f!(30),
            31 => $f!(31),
            32 => $f!(32),
            33 => $f!(33),
            34 => $f!(34),
            35 => $f!(35),
            36 => $f!(36),
            37 => $f!(37),
            38 => $f!(38),
            39 => $f!(39),
            40 => $f!(40),
            n => panic!("N {} not compiled", n),
        }
    };
}

pub fn run(op: &str, a: &[&str]) -> Vec<String> {
    match op {
        // ct_u8_table <fn> : bitmap over all (a,b) pairs (index a*256+b) or all a
        "ct_u8_table" => {
            let mut bits = vec![0u8; 8192];
            let mut set = |i: usize, c: Choice| {
                if c.is_true() {
                    bits[i / 8] |= 1 << (i % 8);
                }
                assert!(c.is_true() != c.is_false());
            };
            match a[0] {
                "eq" | "ne" => {
                    for x in 0..256usize {
                        for y in 0..256usize {
                            let c = if a[0] == "eq" { (x as u8).ct_eq(y as u8) } else { (x as u8).ct_ne(y as u8) };
                            set(x * 256 + y, c);
                        }
                    }
                }
                "zero" | "nonzero" => {
                    for x in 0..256usize {
                        let c = if a[0] == "zero" { (x as u8).ct_zero() } else { (x as u8).ct_nonzero() };
                        set(x, c);
                    }
                    bits.truncate(32);
                }
                _ => panic!("bad table"),
            }
            vec![hex(&bits)]
        }
        // ct_u64 <a> <b> -> zero nonzero eq ne lt gt le ge
        "ct_u64" => {
            let (x, y) = (u64p(a[0]), u64p(a[1]));
            vec![
                ch(x.ct_zero()),
                ch(x.ct_nonzero()),
                ch(x.ct_eq(y)),
                ch(x.ct_ne(y)),
                ch(u64::ct_lt(x, y)),
                ch(u64::ct_gt(x, y)),
                ch(u64::ct_le(x, y)),
                ch(u64::ct_ge(x, y)),
            ]
        }
        // ct_arr <a> <b> (same length N<=40) -> zero(a) nonzero(a) eq ne lt ge
        "ct_arr" => {
            let (x, y) = (expand(a[0]), expand(a[1]));
            assert_eq!(x.len(), y.len());
            macro_rules! f {
                ($n:literal) => {{
                    let xa = <&[u8; $n]>::try_from(&x[..]).unwrap();
                    let ya = <&[u8; $n]>::try_from(&y[..]).unwrap();
                    vec![
                        ch(xa.ct_zero()),
                        ch(xa.ct_nonzero()),
                        ch(xa.ct_eq(ya)),
                        ch(xa.ct_ne(ya)),
                        ch(<&[u8; $n]>::ct_lt(xa, ya)),
                        ch(<&[u8; $n]>::ct_ge(xa, ya)),
                    ]
                }};
            }
            with_n!(x.len(), f)
        }
        // ct_arr_at <a> <b> <offa> <offb> : as ct_arr with the two arrays stored offa / offb bytes into 64-byte aligned buffers
        "ct_arr_at" => {
            let (x, y) = (expand(a[0]), expand(a[1]));
            let (oa, ob) = (usz(a[2]), usz(a[3]));
            assert_eq!(x.len(), y.len());
            let (mut bx, mut by) = (Box::new(Aligned([0x5a; 128])), Box::new(Aligned([0xa5; 128])));
            bx.0[oa..oa + x.len()].copy_from_slice(&x);
            by.0[ob..ob + y.len()].copy_from_slice(&y);
            assert_eq!(bx.0.as_ptr() as usize % 64, 0);
            macro_rules! f {
                ($n:literal) => {{
                    let xa = <&[u8; $n]>::try_from(&bx.0[oa..oa + $n]).unwrap();
                    let ya = <&[u8; $n]>::try_from(&by.0[ob..ob + $n]).unwrap();
                    vec![
                        ch(xa.ct_zero()),
                        ch(xa.ct_nonzero()),
                        ch(xa.ct_eq(ya)),
                        ch(xa.ct_ne(ya)),
                        ch(<&[u8; $n]>::ct_lt(xa, ya)),
                        ch(<&[u8; $n]>::ct_ge(xa, ya)),
                    ]
                }};
            }
            with_n!(x.len(), f)
        }
        // tag_eq_at <a> <b> <offa> <offb> : Tag comparison with the two tags stored at the given offsets of aligned buffers
        "tag_eq_at" => {
            let (x, y) = (expand(a[0]), expand(a[1]));
            let (oa, ob) = (usz(a[2]), usz(a[3]));
            let tx = Tag(<[u8; 16]>::try_from(&x[..]).expect("TYPE"));
            let ty = Tag(<[u8; 16]>::try_from(&y[..]).expect("TYPE"));
            macro_rules! at {
                ($($k:literal)*) => {{
                    let bx: Box<dyn TagHolder> = match oa { $($k => Box::new(TagRec::<$k> { hdr: [0; $k], tag: tx }),)* _ => panic!("HARNESS: offset") };
                    let by: Box<dyn TagHolder> = match ob { $($k => Box::new(TagRec::<$k> { hdr: [0; $k], tag: ty }),)* _ => panic!("HARNESS: offset") };
                    (bx, by)
                }};
            }
            let (bx, by) = at!(0 1 2 3 4 5 6 7 8 9 10 11 12 13 14 15);
            let (x, y) = (bx.tag(), by.tag());
            assert_eq!(x as *const Tag as usize % 32, oa);
            assert_eq!(y as *const Tag as usize % 32, ob);
            vec![tf(x == y), tf(y == x), ch(x.ct_eq(y)), ch(x.ct_ne(y))]
        }
        // ct_slice <a> <b> -> eq ne  (panics when lengths differ)
        "ct_slice" => {
            let (x, y) = (expand(a[0]), expand(a[1]));
            vec![ch((&x[..]).ct_eq(&y[..])), ch((&x[..]).ct_ne(&y[..]))]
        }
        // ct_u64arr <a> <b> (bytes, multiple of 8, same N) -> zero nonzero eq ne
        "ct_u64arr" => {
            let (x, y) = (u64s(&expand(a[0])), u64s(&expand(a[1])));
            assert_eq!(x.len(), y.len());
            macro_rules! f {
                ($n:literal) => {{
                    let xa = <&[u64; $n]>::try_from(&x[..]).unwrap();
                    let ya = <&[u64; $n]>::try_from(&y[..]).unwrap();
                    vec![ch(xa.ct_zero()), ch(xa.ct_nonzero()), ch(xa.ct_eq(ya)), ch(xa.ct_ne(ya))]
                }};
            }
            with_n!(x.len(), f)
        }
        // ct_u64slice <a> <b> -> zero(a) nonzero(a) eq ne
        "ct_u64slice" => {
            let (x, y) = (u64s(&expand(a[0])), u64s(&expand(a[1])));
            vec![ch((&x[..]).ct_zero()), ch((&x[..]).ct_nonzero()), ch((&x[..]).ct_eq(&y[..])), ch((&x[..]).ct_ne(&y[..]))]
        }
        // choice <a:0|1> <b:0|1> -> and or xor neg(a)
        "choice" => {
            let (x, y) = (mkroute(a[0]), mkroute(a[1]));
            vec![ch(x & y), ch(x | y), ch(x ^ y), ch(x.negate()), ch(x), ch(y.negate().negate())]
        }
        // ctopt <present:0|1> <value>
        "ctopt" => {
            let o: CtOption<Vec<u8>> = CtOption::from((mkroute(a[0]), expand(a[1])));
            vec![match o.into_option() {
                Some(v) => format!("SOME:{}", hex(&v)),
                None => "NONE".into(),
            }]
        }
        // swap64/set64 <choice> <a> <b> (bytes, N u64 each; N in 0..=40)
        "swap64" | "set64" => {
            let (mut x, mut y) = (u64s(&expand(a[1])), u64s(&expand(a[2])));
            let c = mkroute(a[0]);
            macro_rules! f {
                ($n:literal) => {{
                    let xa = <&mut [u64; $n]>::try_from(&mut x[..]).unwrap();
                    if op == "swap64" {
                        let ya = <&mut [u64; $n]>::try_from(&mut y[..]).unwrap();
                        verif::array64_maybe_swap(xa, ya, c);
                    } else {
                        let ya = <&[u64; $n]>::try_from(&y[..]).unwrap();
                        verif::array64_maybe_set(xa, ya, c);
                    }
                }};
            }
            with_n!(x.len(), f);
            let enc = |v: &[u64]| hex(&v.iter().flat_map(|w| w.to_le_bytes()).collect::<Vec<u8>>());
            vec![enc(&x), enc(&y)]
        }
        "swap32" | "set32" => {
            let to = |v: &[u8]| -> Vec<i32> { v.chunks(4).map(|c| i32::from_le_bytes(<[u8; 4]>::try_from(c).unwrap())).collect() };
            let (mut x, mut y) = (to(&expand(a[1])), to(&expand(a[2])));
            let c = mkroute(a[0]);
            macro_rules! f {
                ($n:literal) => {{
                    let xa = <&mut [i32; $n]>::try_from(&mut x[..]).unwrap();
                    if op == "swap32" {
                        let ya = <&mut [i32; $n]>::try_from(&mut y[..]).unwrap();
                        verif::array32_maybe_swap(xa, ya, c);
                    } else {
                        let ya = <&[i32; $n]>::try_from(&y[..]).unwrap();
                        verif::array32_maybe_set(xa, ya, c);
                    }
                }};
            }
            with_n!(x.len(), f);
            let enc = |v: &[i32]| hex(&v.iter().flat_map(|w| w.to_le_bytes()).collect::<Vec<u8>>());
            vec![enc(&x), enc(&y)]
        }
        "macres_eq" => {
            let x = MacResult::new(&expand(a[0]));
            let y = MacResult::new_from_owned(expand(a[1]));
            vec![tf(x == y), tf(y == x), tf(x != y)]
        }
        "tag_eq" => {
            let x = Tag(<[u8; 16]>::try_from(&expand(a[0])[..]).expect("TYPE"));
            let y = Tag(<[u8; 16]>::try_from(&expand(a[1])[..]).expect("TYPE"));
            vec![tf(x == y), tf(y == x), ch((&x).ct_eq(&y)), ch((&x).ct_ne(&y))]
        }
        _ => unreachable!(),
    }
}
