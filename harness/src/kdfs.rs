//! HKDF, PBKDF2, scrypt, Argon2
use crate::codec::*;
use crate::macs;
use cryptoxide::kdf::argon2;
use cryptoxide::scrypt::{scrypt, ScryptParams};

/// CRC-32 (IEEE, reflected, as zlib.crc32) - a checksum the library under test does not provide
fn crc32(d: &[u8]) -> u32 {
    let mut t = [0u32; 256];
    for i in 0..256u32 {
        let mut c = i;
        for _ in 0..8 {
            c = if c & 1 != 0 { 0xedb88320 ^ (c >> 1) } else { c >> 1 };
        }
        t[i as usize] = c;
    }
    let mut c = 0xffff_ffffu32;
    for b in d {
        c = t[((c ^ *b as u32) & 0xff) as usize] ^ (c >> 8);
    }
    c ^ 0xffff_ffff
}
fn summary(o: &[u8]) -> String {
    let n = std::cmp::min(32, o.len());
    format!("{:08x}:{}:{}", crc32(o), hex(&o[..n]), hex(&o[o.len() - n..]))
}

fn argon2_params(ty: &str, ver: &str, t: &str, m: &str, p: &str) -> Result<argon2::Params, String> {
    let prm = match ty {
        "d" => argon2::Params::argon2d(),
        "i" => argon2::Params::argon2i(),
        "id" => argon2::Params::argon2id(),
        _ => panic!("argon2 type"),
    };
    let e = |x: argon2::InvalidParam| format!("ERR:{:?}", x);
    let prm = prm.parallelism(u64p(p) as u32).map_err(e)?;
    let prm = prm.memory_kb(u64p(m) as u32).map_err(e)?;
    let prm = prm.iterations(u64p(t) as u32).map_err(e)?;
    let prm = prm.version(u64p(ver) as u32).map_err(e)?;
    Ok(prm)
}

/// builder history: setters applied in the given order, any number of times ("p=3", "m=47", "t=2", "v=0x13")
fn argon2_params_seq(ty: &str, setters: &[&str]) -> Result<argon2::Params, String> {
    let mut prm = match ty {
        "d" => argon2::Params::argon2d(),
        "i" => argon2::Params::argon2i(),
        "id" => argon2::Params::argon2id(),
        _ => panic!("argon2 type"),
    };
    let e = |x: argon2::InvalidParam| format!("ERR:{:?}", x);
    for s in setters {
        let (k, v) = s.split_at(2);
        let v = u64p(v) as u32;
        prm = match k {
            "p=" => prm.parallelism(v).map_err(e)?,
            "m=" => prm.memory_kb(v).map_err(e)?,
            "t=" => prm.iterations(v).map_err(e)?,
            "v=" => prm.version(v).map_err(e)?,
            _ => panic!("bad setter {}", s),
        };
    }
    Ok(prm)
}

fn argon2_tag(prm: &argon2::Params, tl: usize, pwd: &[u8], salt: &[u8], key: &[u8], aad: &[u8], api: &str) -> Vec<u8> {
    if api == "at" {
        let mut o = dirty(tl);
        argon2::argon2_at(prm, pwd, salt, key, aad, &mut o);
        o
    } else {
        macro_rules! f { ($n:literal) => { argon2::argon2::<$n>(prm, pwd, salt, key, aad).to_vec() }; }
        match tl {
            4 => f!(4),
            16 => f!(16),
            32 => f!(32),
            33 => f!(33),
            64 => f!(64),
            65 => f!(65),
            96 => f!(96),
            128 => f!(128),
            n => panic!("argon2 T {} not compiled", n),
        }
    }
}

pub fn run(op: &str, a: &[&str]) -> Vec<String> {
    match op {
        // argon2b <type> <T> <pwd> <salt> <key> <aad> <at|arr> <setter>... : Params built by an arbitrary setter history;
        // the same Params value is then used twice (it is borrowed, so the second call must give the same tag)
        // argon2_accept <type> <setters...> : only builds the Params (nothing is allocated): OK or ERR:<reason>
        "argon2_accept" => match argon2_params_seq(a[0], &a[1..]) {
            Ok(_) => vec!["OK".into()],
            Err(e) => vec![e],
        },
        "argon2b" => {
            let prm = match argon2_params_seq(a[0], &a[7..]) {
                Ok(p) => p,
                Err(e) => return vec![e],
            };
            let (pwd, salt, key, aad) = (expand(a[2]), expand(a[3]), expand(a[4]), expand(a[5]));
            let t1 = argon2_tag(&prm, usz(a[1]), &pwd, &salt, &key, &aad, a[6]);
            let t2 = argon2_tag(&prm, usz(a[1]), &pwd, &salt, &key, &aad, "at");
            vec![hex(&t1), hex(&t2)]
        }
        // hkdf_extract <digest> <salt> <ikm> [prklen|-] [soil/<data>[/fin]]
        "hkdf_extract" => {
            let (salt, ikm) = (expand(a[1]), expand(a[2]));
            let n = if a.len() > 3 && a[3] != "-" { usz(a[3]) } else { macs::new_digest(a[0]).output_bytes() };
            let mut prk = dirty(n);
            macs::hkdf_extract_with(a[0], &salt, &ikm, &mut prk, &macs::parse_soil(a.get(4)));
            vec![hex(&prk)]
        }
        // hkdf_expand <digest> <prk> <info> <L> [soil/<data>[/fin]]
        "hkdf_expand" => {
            let (prk, info) = (expand(a[1]), expand(a[2]));
            let mut okm = dirty(usz(a[3]));
            macs::hkdf_expand_with(a[0], &prk, &info, &mut okm, &macs::parse_soil(a.get(4)));
            vec![hex(&okm)]
        }
        // pbkdf2 <digest> <pw> <salt> <c> <dklen>
        "pbkdf2" => {
            let (pw, salt) = (expand(a[1]), expand(a[2]));
            let mut o = dirty(usz(a[4]));
            macs::pbkdf2_with(a[0], &pw, &salt, u64p(a[3]) as u32, &mut o);
            vec![hex(&o)]
        }
        // pbkdf2_twice <digest> <pw> <salt1> <c1> <dk1> <salt2> <c2> <dk2> : both derivations use the same Mac object
        "pbkdf2_twice" => {
            let (pw, s1, s2) = (expand(a[1]), expand(a[2]), expand(a[5]));
            let (mut o1, mut o2) = (dirty(usz(a[4])), dirty(usz(a[7])));
            macs::pbkdf2_twice_with(a[0], &pw, &s1, u64p(a[3]) as u32, &mut o1, &s2, u64p(a[6]) as u32, &mut o2);
            vec![hex(&o1), hex(&o2)]
        }
        // scrypt <pw> <salt> <logn> <r> <p> <dklen>
        "scrypt" => {
            let (pw, salt) = (expand(a[0]), expand(a[1]));
            let prm = ScryptParams::new(u64p(a[2]) as u8, u64p(a[3]) as u32, u64p(a[4]) as u32);
            let mut o = dirty(usz(a[5]));
            scrypt(&pw, &salt, &prm, &mut o);
            vec![hex(&o)]
        }
        // scrypt_big / pbkdf2_big : same arguments, for outputs too large to log: reports "<crc32>:<first 32 bytes>:<last 32 bytes>"
        "scrypt_big" => {
            let (pw, salt) = (expand(a[0]), expand(a[1]));
            let prm = ScryptParams::new(u64p(a[2]) as u8, u64p(a[3]) as u32, u64p(a[4]) as u32);
            let mut o = vec![0x5au8; usz(a[5])];
            scrypt(&pw, &salt, &prm, &mut o);
            vec![summary(&o)]
        }
        "pbkdf2_big" => {
            let (pw, salt) = (expand(a[1]), expand(a[2]));
            let mut o = vec![0x5au8; usz(a[4])];
            macs::pbkdf2_with(a[0], &pw, &salt, u64p(a[3]) as u32, &mut o);
            vec![summary(&o)]
        }
        "scrypt_params" => {
            let _ = ScryptParams::new(u64p(a[0]) as u8, u64p(a[1]) as u32, u64p(a[2]) as u32);
            vec!["OK".into()]
        }
        "argon2_params" => match argon2_params(a[0], a[1], a[2], a[3], a[4]) {
            Ok(_) => vec!["OK".into()],
            Err(e) => vec![e],
        },
        // argon2 <type> <ver> <t> <m> <p> <T> <pwd> <salt> <key> <aad> <at|arr>
        "argon2" => {
            let prm = match argon2_params(a[0], a[1], a[2], a[3], a[4]) {
                Ok(p) => p,
                Err(e) => return vec![e],
            };
            let tl = usz(a[5]);
            let (pwd, salt, key, aad) = (expand(a[6]), expand(a[7]), expand(a[8]), expand(a[9]));
            if a[10] == "at" {
                let mut o = dirty(tl);
                argon2::argon2_at(&prm, &pwd, &salt, &key, &aad, &mut o);
                vec![hex(&o)]
            } else {
                macro_rules! f { ($n:literal) => { argon2::argon2::<$n>(&prm, &pwd, &salt, &key, &aad).to_vec() }; }
                let o = match tl {
                    4 => f!(4),
                    5 => f!(5),
                    16 => f!(16),
                    31 => f!(31),
                    32 => f!(32),
                    33 => f!(33),
                    63 => f!(63),
                    64 => f!(64),
                    65 => f!(65),
                    95 => f!(95),
                    96 => f!(96),
                    97 => f!(97),
                    128 => f!(128),
                    160 => f!(160),
                    300 => f!(300),
                    n => panic!("argon2 T {} not compiled", n),
                };
                vec![hex(&o)]
            }
        }
        _ => unreachable!(),
    }
}
