//! cxmon: op interpreter that drives the real cryptoxide API from case files and logs every result.
//! It contains no expected values and no oracle.
#![cfg(feature = "full")]
pub mod codec;
pub mod hashes;
pub mod streams;
pub mod macs;
pub mod aead;
pub mod kdfs;
pub mod curve;
pub mod ct;
pub mod misc;

use std::panic::{catch_unwind, AssertUnwindSafe};

/// Run `f`, turning a panic into the token `PANIC`.
pub fn guard<F: FnOnce() -> Vec<String>>(f: F) -> Vec<String> {
    match catch_unwind(AssertUnwindSafe(f)) {
        Ok(v) => v,
        Err(_) => vec!["PANIC".to_string()],
    }
}

/// Run one step of a history. Returns false when the step panicked (history must stop).
pub fn step<F: FnOnce() -> Option<String>>(out: &mut Vec<String>, f: F) -> bool {
    match catch_unwind(AssertUnwindSafe(f)) {
        Ok(Some(t)) => {
            out.push(t);
            true
        }
        Ok(None) => true,
        Err(_) => {
            out.push("PANIC".to_string());
            false
        }
    }
}

/// Execute one case line.
pub fn run_line(line: &str) -> Vec<String> {
    let f: Vec<&str> = line.split_whitespace().collect();
    if f.is_empty() {
        return vec![];
    }
    let args = &f[1..];
    match f[0] {
        "hash" | "b2b" | "b2s" | "b2b_at" | "b2s_at" | "b2bt" | "b2st" | "b2blegacy" | "b2slegacy" | "hashoff" | "hh" | "b2ctr" | "b2embed" => {
            hashes::run(f[0], args)
        }
        "sc" | "pe" | "peh" | "drg" => streams::run(f[0], args),
        "mac" | "dig" => macs::run(f[0], args),
        "aead_enc" | "aead_dec" | "aead_inc" | "aead_twice" | "aead_shape" => aead::run(f[0], args),
        "hkdf_extract" | "hkdf_expand" | "pbkdf2" | "pbkdf2_twice" | "scrypt" | "scrypt_big" | "pbkdf2_big" | "scrypt_params" | "argon2" | "argon2b" | "argon2_accept" | "argon2_params" => {
            kdfs::run(f[0], args)
        }
        "bulk" | "x25519" | "x25519_base" | "x_dh" | "x_dhc" | "x_base" | "x25519_iter" | "x_try" | "ed_keypair" | "ed_sign" | "ed_sign_ext"
        | "ed_ext_pub" | "ed_exchange" | "ed_verify" | "fe" | "consts" | "sc_reduce" | "sc_muladd" | "sc_canon" | "sc_rt" | "ge_base" | "ge_dsm"
        | "ge_chain" | "ge_prog" | "ge_decode" | "ge_table" | "ge_select" => curve::run(f[0], args),
        "ct_u8_table" | "ct_u64" | "ct_arr" | "ct_arr_at" | "tag_eq_at" | "ct_slice" | "ct_u64arr" | "ct_u64slice" | "choice" | "ctopt" | "swap64"
        | "swap32" | "set64" | "set32" | "macres_eq" | "tag_eq" => ct::run(f[0], args),
        _ => vec![format!("UNKNOWN-OP:{}", f[0])],
    }
}
