"""C19 - secret values never influence which instructions execute (control-flow monitors on the optimised build)."""
import hashlib
import os
import re
import shutil
import subprocess
import time
from concurrent.futures import ThreadPoolExecutor
from ..codec import Rng
from .. import runner as R

ID = 'C19'
RULE = ('victim = release build of the current tree; every secret is run through the same #[inline(never)] function with all public inputs and lengths fixed. '
        'Monitor 1 (decides, literal): ptrace single-stepping between two markers, all secrets of a target must give the same (instruction count, hash of the RIP sequence). '
        'Monitor 2 (decides, sound): callgrind per-call dumps, the multiset {(object, instruction address) -> executions} must be identical for all secrets (a different multiset implies a '
        'different sequence). Targets: X25519 general/fixed-base (curve25519 and x25519 module entry points), Ed25519 keypair/sign/sign-extended (clamped and as-supplied extended scalars)/extended_to_public/exchange, Poly1305 (one-call, chunked, and a public message chosen so that small r drives the accumulator next to 2^130), '
        'HMAC over SHA-1/SHA-256/SHA-512/SHA3-256/BLAKE2b/RIPEMD-160 (also a key longer than the block and a multi-call message), keyed BLAKE2b/2s MAC, ChaCha8/12/20 (16- and 32-byte keys), ChaChaOriginal, XChaCha20, Salsa20/12, XSalsa20, ChaCha20-Poly1305 one-shot encryption/decryption and incremental encryption, MacResult == for 16/20/28/32/48/64-byte MACs, Tag == and Tag::ct_eq with the first mismatch at every position. '
        'Monitor 3 (decides, value-independent): valgrind memcheck with the secret bytes marked undefined right before the call (ctgrind idiom): a "conditional jump depends on uninitialised value" '
        'report with a crate frame among the top frames means a branch condition derives from the secret, whether or not the sampled values take it differently (uses of the secret as a memory address are counted, not judged). '
        'Builds: default, -C codegen-units=1, opt-level=s, release with overflow checks + debug assertions (all targets), force-32bits and the ed25519+x25519-only feature set (curve targets), +avx2 (hash / MAC / cipher targets that reach vectorised code). Secrets: random, all-zero, all-ones, single-bit, low/high Hamming weight; distinct = (target, secret)')
ASSUMPTIONS = ['decides on sampled secrets, this compiler and this host; says nothing about instruction latency or memory-address leakage',
               'callgrind and ptrace observe user-space instructions of the victim process; libc routines reached inside the region (memcpy, malloc) are part of the trace']
FLOORS = {'evaluations': 300, 'distinct': 300}

LARGE = ['x25519', 'x25519_base', 'ed_keypair', 'ed_sign', 'ed_sign_ext', 'ed_sign_ext_raw', 'ed_ext_pub', 'ed_exchange', 'x_dh', 'x_base']
SMALL = ['poly1305', 'poly1305_wrapmsg', 'hmac_sha256', 'hmac_sha512', 'chacha20', 'xchacha20', 'salsa20', 'aead_encrypt',
         'hmac_sha1', 'hmac_sha3_256', 'hmac_blake2b', 'hmac_ripemd160', 'hmac_sha256_longmsg', 'hmac_sha512_key128', 'chacha8_k16', 'chacha12', 'chachaoriginal', 'xsalsa20', 'salsa20_k16',
         'aead_decrypt', 'aead_incremental', 'poly1305_chunks', 'blake2b_mac', 'blake2s_mac', 'hmac_sha256_big', 'blake2b_mac_big', 'blake2s_mac_big']
CMP = {'macresult_eq16': 16, 'macresult_eq20': 20, 'macresult_eq28': 28, 'macresult_eq32': 32, 'macresult_eq48': 48, 'macresult_eq64': 64, 'tag_eq': 16, 'tag_cteq': 16}
AVX2_TARGETS = ['hmac_sha256', 'hmac_sha256_longmsg', 'hmac_sha256_big', 'blake2b_mac_big', 'blake2s_mac_big', 'hmac_blake2b', 'blake2b_mac', 'blake2s_mac', 'hmac_sha512', 'chacha20', 'aead_encrypt', 'aead_incremental', 'poly1305', 'ed_sign', 'macresult_eq32', 'tag_eq']
PUBLIC_TAG = bytes(((i * 37) + 11) & 0xff for i in range(64))


def secrets_for(target, rng, n_random):
    if target in CMP:
        n = CMP[target]
        base = PUBLIC_TAG[:n]
        out = [('equal', base)]
        for pos in range(n):
            x = bytearray(base); x[pos] ^= 1 << rng.below(8)
            out.append(('mismatch@%d' % pos, bytes(x)))
        for pos in (0, n // 2, n - 1):
            x = bytearray(base)
            for j in range(pos, n):
                x[j] ^= 0xff
            out.append(('mismatch-from@%d' % pos, bytes(x)))
        out.append(('all-different', bytes(b ^ 0x5a for b in base)))
        out.append(('zero', bytes(n)))
        return out
    out = [('zero', bytes(32)), ('ones', b'\xff' * 32)]
    for bit in (0, 1, 2, 3, 7, 8, 31, 32, 63, 64, 100, 127, 128, 129, 200, 252, 253, 254, 255):
        out.append(('bit%d' % bit, (1 << bit).to_bytes(32, 'little')))
    out.append(('low-hw', bytes([1, 0, 0, 0, 0, 0, 0, 0] * 4)))
    out.append(('high-hw', bytes([0xfe, 0xff, 0xff, 0xff, 0xff, 0xff, 0xff, 0x7f] * 4)))
    out.append(('r=2', (2).to_bytes(32, 'little')))
    out.append(('r=2^34', (1 << 34).to_bytes(32, 'little')))
    out.append(('r=1,s=ones', (1).to_bytes(16, 'little') + b'\xff' * 16))
    for i in range(n_random):
        out.append(('rnd%d' % i, rng.bytes(32)))
    return out


# ------------------------------------------------------------------ monitor 2: callgrind
def parse_dump(path):
    """returns (total Ir, {(ob, addr): Ir}, {(ob, addr): fn})"""
    hist, names = {}, {}
    ob = fn = None
    skip = False
    total = 0
    for ln in open(path, errors='replace'):
        if ln.startswith('ob='):
            ob = ln[3:].strip(); continue
        if ln.startswith('fn='):
            fn = ln[3:].strip(); continue
        if ln.startswith('calls='):
            skip = True; continue
        if ln.startswith('0x'):
            if skip:
                skip = False; continue
            p = ln.split()
            if len(p) >= 3:
                k = (ob, p[0])
                c = int(p[2])
                hist[k] = hist.get(k, 0) + c
                names[k] = fn
                total += c
    return total, hist, names


def callgrind_target(victim, target, secrets, wd):
    d = os.path.join(wd, 'cg-' + target)
    shutil.rmtree(d, ignore_errors=True)
    os.makedirs(d)
    sf = os.path.join(d, 'secrets.txt')
    open(sf, 'w').write('\n'.join(s.hex() for _, s in secrets) + '\n')
    cmd = ['valgrind', '--tool=callgrind', '--dump-instr=yes', '--compress-pos=no', '--compress-strings=no', '--toggle-collect=ct_region', '--dump-after=ct_region',
           '--callgrind-out-file=' + os.path.join(d, 'cg.out'), victim, target, sf]
    try:
        p = subprocess.run(cmd, stdout=subprocess.PIPE, stderr=subprocess.PIPE, text=True, timeout=1800)
    except subprocess.TimeoutExpired:
        return {'target': target, 'inconclusive': 'callgrind watchdog'}
    if p.returncode != 0 or 'done %d' % len(secrets) not in p.stdout:
        return {'target': target, 'inconclusive': 'callgrind run failed rc=%s %s' % (p.returncode, p.stderr[-300:])}
    dumps = []
    for i in range(len(secrets)):
        f = os.path.join(d, 'cg.out.%d' % (i + 3))      # dumps 1,2 are the warm-up calls
        if not os.path.exists(f):
            return {'target': target, 'inconclusive': 'missing dump %d' % (i + 3)}
        dumps.append(parse_dump(f))
    ref_total, ref_hist, ref_names = dumps[0]
    diffs = []
    for (name, sec), (total, hist, names) in zip(secrets[1:], dumps[1:]):
        if hist != ref_hist:
            keys = sorted(set(hist) | set(ref_hist))
            delta = [(k, ref_hist.get(k, 0), hist.get(k, 0), names.get(k) or ref_names.get(k)) for k in keys if ref_hist.get(k, 0) != hist.get(k, 0)]
            diffs.append({'secret': name, 'secret_hex': sec.hex(), 'reference': secrets[0][0], 'ir': total, 'ir_reference': ref_total,
                          'first_differences': [{'object': os.path.basename(k[0] or '?'), 'addr': k[1], 'ref': a, 'this': b, 'fn': (fn_ or '')[:120]} for k, a, b, fn_ in delta[:6]],
                          'n_addresses_differing': len(delta)})
    shutil.rmtree(d, ignore_errors=True)
    return {'target': target, 'secrets': len(secrets), 'ir_per_call': ref_total, 'distinct_addresses': len(ref_hist), 'diffs': diffs, 'inconclusive': None}


# ------------------------------------------------------------------ monitor 3: memcheck with the secret marked undefined
def taint_target(victim, target, secrets, wd):
    """ctgrind idiom: the secret bytes are marked 'undefined' by a client request right before the call; memcheck then reports
    every conditional jump whose condition derives from them - also for branches the sampled secret values never take differently."""
    d = os.path.join(wd, 'taint-' + target)
    shutil.rmtree(d, ignore_errors=True)
    os.makedirs(d)
    sf = os.path.join(d, 'secrets.txt')
    open(sf, 'w').write('\n'.join(s.hex() for _, s in secrets) + '\n')
    log = os.path.join(d, 'vg.log')
    cmd = ['valgrind', '--tool=memcheck', '--leak-check=no', '--error-exitcode=0', '--num-callers=24', '--error-limit=no', '--fullpath-after=' + R.REPO.rstrip('/') + '/', '--log-file=' + log, victim, target, sf, 'taint']
    try:
        p = subprocess.run(cmd, stdout=subprocess.PIPE, stderr=subprocess.PIPE, text=True, timeout=1800)
    except subprocess.TimeoutExpired:
        return {'target': target, 'inconclusive': 'memcheck watchdog'}
    if p.returncode != 0 or 'done %d' % len(secrets) not in p.stdout:
        return {'target': target, 'inconclusive': 'memcheck run failed rc=%s %s' % (p.returncode, p.stderr[-300:])}
    txt = open(log).read()
    jumps, addr_uses = [], 0
    for blk in re.split(r'\n==\d+== \n', txt):
        if 'Conditional jump or move depends on uninitialised value' in blk:
            # frames from the innermost outwards, up to the victim's marker function; inlined frames carry short names, so a frame
            # belongs to the crate when its name says so or when its source file lies under /repo/src (--fullpath-after=/repo/)
            frames = []
            for m in re.finditer(r'(?:at|by) 0x[0-9A-F]+: (.+?)(?: \(([^()]*)\))?\s*$', blk, flags=re.M):
                name, where = m.group(1), m.group(2) or ''
                if name.startswith('ct_region'):
                    break
                frames.append((name, where))
            crate = [(n, w) for n, w in frames if 'cryptoxide::' in n or w.startswith('src/')]
            if crate:
                jumps.append({'frames': ['%s (%s)' % (n[:110], w) for n, w in frames[:8]], 'crate_frame': next((n for n, w in crate if 'cryptoxide::' in n), '%s (%s)' % crate[0])})
        elif 'Use of uninitialised value' in blk:
            addr_uses += 1
    shutil.rmtree(d, ignore_errors=True)
    return {'target': target, 'secrets': len(secrets), 'secret_dependent_jumps': jumps, 'secret_dependent_addresses': addr_uses, 'inconclusive': None}


# ------------------------------------------------------------------ monitor 1: ptrace
def ptrace_chunk(tracer, victim, target, secrets, wd, tag, dump=False):
    d = os.path.join(wd, 'pt-%s-%s' % (target, tag))
    shutil.rmtree(d, ignore_errors=True)
    os.makedirs(d)
    sf = os.path.join(d, 'secrets.txt')
    open(sf, 'w').write('\n'.join(s.hex() for _, s in secrets) + '\n')
    try:
        p = subprocess.run([tracer, d if dump else '-', victim, target, sf, 'signal'], stdout=subprocess.PIPE, stderr=subprocess.PIPE, text=True, timeout=2400)
    except subprocess.TimeoutExpired:
        return {'target': target, 'inconclusive': 'ptrace watchdog'}
    segs = re.findall(r'seg (\d+) steps (\d+) hash ([0-9a-f]+)', p.stdout)
    if len(segs) != len(secrets) or 'exit 0' not in p.stdout:
        return {'target': target, 'inconclusive': 'tracer output incomplete: %s %s' % (p.stdout[-200:], p.stderr[-200:])}
    return {'target': target, 'traces': [(secrets[i][0], secrets[i][1].hex(), int(s), h) for i, (_, s, h) in enumerate(segs)], 'inconclusive': None, 'dir': d}


def first_divergence(d, i, j, victim):
    """compare two dumped RIP sequences, symbolise the first differing address"""
    a = open(os.path.join(d, 'seg%d.bin' % i), 'rb').read()
    b = open(os.path.join(d, 'seg%d.bin' % j), 'rb').read()
    n = min(len(a), len(b)) // 8
    k = 0
    while k < n and a[8 * k:8 * k + 8] == b[8 * k:8 * k + 8]:
        k += 1
    pa = int.from_bytes(a[8 * k:8 * k + 8], 'little') if 8 * k < len(a) else None
    pb = int.from_bytes(b[8 * k:8 * k + 8], 'little') if 8 * k < len(b) else None
    prev = int.from_bytes(a[8 * (k - 1):8 * k], 'little') if k else None
    return {'index': k, 'rip_a': hex(pa) if pa else None, 'rip_b': hex(pb) if pb else None, 'last_common_rip': hex(prev) if prev else None}


def _monitors(rep, extra, inconclusive, label, vic, tgts, secrets, wd, tracer, thorough, replay):
    sfx = '' if label.startswith('64') else ('@avx2' if 'avx2' in label else ('@cgu1' if 'codegen-units' in label else ('@curveonly' if 'curve-only' in label else ('@chk' if 'debug assertions' in label else ('@os' if 'opt-level=s' in label else '@f32')))))
    # ---- monitor 2
    with ThreadPoolExecutor(max_workers=R.NPROC) as ex:
        res2 = list(ex.map(lambda t: callgrind_target(vic, t, secrets[t], wd), tgts))
    for r in res2:
        t = r['target']
        if r.get('inconclusive'):
            inconclusive.append('callgrind %s: %s' % (t, r['inconclusive'])); continue
        rep.evaluations += r['secrets']
        for name, _ in secrets[t]:
            rep.classes[('cg' + sfx, t, name)] = 1
        extra['monitor2_callgrind'].append({'build': label, 'target': t, 'secrets': r['secrets'], 'instructions_per_call': r['ir_per_call'], 'distinct_instruction_addresses': r['distinct_addresses'],
                                            'secrets_with_different_histogram': len(r['diffs'])})
        for dinfo in r['diffs']:
            fd = dinfo['first_differences'][0] if dinfo['first_differences'] else {}
            rep.violations.append(('callgrind', -1, 'C19:%s%s:instruction-histogram-depends-on-secret' % (t, sfx),
                                   'secret %s executes %d instructions, %s executes %d; %d addresses differ, e.g. %s in %s (%d vs %d executions)' % (
                                       dinfo['secret'], dinfo['ir'], dinfo['reference'], dinfo['ir_reference'], dinfo['n_addresses_differing'], fd.get('addr'), fd.get('fn'), fd.get('this', 0), fd.get('ref', 0)),
                                   '%s %s' % (t, dinfo['secret_hex']), None))
            # make the replay self-contained: include the reference secret
            rep.violations.append(('callgrind', -1, 'C19:%s%s:instruction-histogram-depends-on-secret' % (t, sfx), 'reference secret', '%s %s' % (t, secrets[t][0][1].hex()), None))
    # ---- monitor 3 (few secrets suffice: the taint does not depend on the secret's value)
    # (not on the overflow-checked build: every checked addition / subtraction on secret data is a conditional jump to the panic path whose
    # condition derives from the secret but which no in-domain value ever takes - the executed sequence stays the same, which is what the
    # property is about; that build is judged by the value-based monitors only)
    with ThreadPoolExecutor(max_workers=R.NPROC) as ex:
        res3 = list(ex.map(lambda t: taint_target(vic, t, secrets[t][:6], wd), tgts if sfx != '@chk' else []))
    for r in res3:
        t = r['target']
        if r.get('inconclusive'):
            inconclusive.append('memcheck-taint %s: %s' % (t, r['inconclusive'])); continue
        rep.evaluations += r['secrets']
        extra['monitor3_memcheck_taint'].append({'build': label, 'target': t, 'secrets': r['secrets'], 'conditional_jumps_on_secret': len(r['secret_dependent_jumps']),
                                                 'secret_used_as_address': r['secret_dependent_addresses']})
        seen = set()
        for j in r['secret_dependent_jumps']:
            fn = j['crate_frame']
            if fn in seen:
                continue
            seen.add(fn)
            rep.violations.append(('memcheck-taint', -1, 'C19:%s%s:conditional-jump-on-secret' % (t, sfx), 'memcheck: a conditional jump in %s depends on the secret (frames: %s)' % (fn, ' <- '.join(j['frames'][:4])),
                                   '%s %s' % (t, secrets[t][0][1].hex()), None))
    # ---- monitor 1 (the force-32bits build is single-stepped only in the thorough tier: > 1.2 M steps per X25519 call)
    jobs = []
    for t in (tgts if (sfx == '' or thorough) else []):
        ss = secrets[t]
        if t in LARGE:
            pick = [s for s in ss if s[0] in ('zero', 'ones')] + [s for s in ss if s[0].startswith('rnd')][:((14 if sfx == '' else 5) if thorough else 1)]
            if replay:
                pick = ss
            for i, s in enumerate(pick):
                jobs.append((t, [s], 'j%03d' % i))
        else:
            cap = (len(ss) if sfx == '' else 300) if (thorough or t in CMP) else 24      # single-stepping every secret on all seven builds would take hours
            pick = ss[:cap]
            # chunks of ~12 secrets to use the cores
            for i in range(0, len(pick), 12):
                jobs.append((t, pick[i:i + 12], 'j%03d' % (i // 12)))
    with ThreadPoolExecutor(max_workers=R.NPROC) as ex:
        res1 = list(ex.map(lambda j: ptrace_chunk(tracer, vic, j[0], j[1], wd, j[2]), jobs))
    by_target = {}
    for r in res1:
        if r.get('inconclusive'):
            inconclusive.append('ptrace %s: %s' % (r['target'], r['inconclusive'])); continue
        by_target.setdefault(r['target'], []).extend(r['traces'])
        shutil.rmtree(r['dir'], ignore_errors=True)
    for t, traces in by_target.items():
        rep.evaluations += len(traces)
        for tr in traces:
            rep.classes[('pt' + sfx, t, tr[0])] = 1
        sigs = {}
        for name, hx, steps, h in traces:
            sigs.setdefault((steps, h), []).append((name, hx))
        extra['monitor1_ptrace'].append({'build': label, 'target': t, 'traces': len(traces), 'steps': sorted(set(k[0] for k in sigs)), 'distinct_trace_hashes': len(sigs), 'trace_hash': sorted(k[1] for k in sigs)[:4]})
        if len(sigs) > 1:
            groups = sorted(sigs.items(), key=lambda kv: -len(kv[1]))
            ref = groups[0]
            for (steps, h), members in groups[1:]:
                name, hx = members[0]
                # Traces of different tracer processes are compared through their hashes; the memory layout of two processes can differ
                # slightly (argument strings, number of secrets in the chunk), and libc routines such as memcpy choose their path by
                # alignment.  A difference therefore counts only when it is CONFIRMED by re-tracing the two secrets inside one process,
                # where nothing but the secret differs; the re-trace also locates the first diverging instruction.
                rr = ptrace_chunk(tracer, vic, t, [('ref', bytes.fromhex(ref[1][0][1])), (name, bytes.fromhex(hx))], wd, 'diag', dump=True)
                if rr.get('inconclusive'):
                    inconclusive.append('ptrace re-trace %s: %s' % (t, rr['inconclusive']))
                    continue
                same = rr['traces'][0][2:] == rr['traces'][1][2:]
                where = first_divergence(rr['dir'], 0, 1, vic)
                if rr.get('dir'):
                    shutil.rmtree(rr['dir'], ignore_errors=True)
                if same:
                    extra.setdefault('ptrace_cross_process_layout_differences_not_confirmed', []).append({'build': label, 'target': t, 'secret': name, 'steps': steps})
                    continue
                rep.violations.append(('ptrace', -1, 'C19:%s%s:pc-trace-depends-on-secret' % (t, sfx),
                                       'secret %s: %d steps hash %s; reference %s: %d steps hash %s; confirmed in one process, first divergence %r' % (name, steps, h, ref[1][0][0], ref[0][0], ref[0][1], where),
                                       '%s %s' % (t, hx), None))
                rep.violations.append(('ptrace', -1, 'C19:%s%s:pc-trace-depends-on-secret' % (t, sfx), 'reference secret', '%s %s' % (t, ref[1][0][1]), None))


def run(tier, seed, replay=None):
    thorough = tier == 'thorough'
    rep = R.Report(ID, tier, seed)
    rep.rule = RULE; rep.assumptions = list(ASSUMPTIONS)
    rng = Rng('C19', seed)
    wd = R.workdir(ID)
    victim = R.build('rel', binary='ctvictim')
    tracer = os.path.join(R.BUILD, 'tools', 'pctrace')
    src = os.path.join(R.ROOT, 'tools', 'pctrace.c')
    if not os.path.exists(tracer) or os.path.getmtime(tracer) < os.path.getmtime(src):
        os.makedirs(os.path.dirname(tracer), exist_ok=True)
        p = subprocess.run(['gcc', '-O2', '-o', tracer, src], capture_output=True, text=True)
        if p.returncode:
            raise R.Inconclusive('cannot build pctrace: ' + p.stderr[-300:])
    if not shutil.which('valgrind'):
        raise R.Inconclusive('valgrind missing')
    targets = LARGE + SMALL + list(CMP)
    if replay:
        # replay file: lines "target secret-hex"
        want = {}
        for l in open(replay):
            if l.strip() and not l.startswith('#'):
                t, s = l.split()[:2]
                want.setdefault(t, []).append(('replay%d' % len(want.get(t, [])), bytes.fromhex(s)))
        targets = list(want)
    n_random = 2000 if thorough else 40
    secrets = {t: (want[t] if replay else secrets_for(t, rng, n_random if t not in LARGE else (300 if thorough else 40))) for t in targets}
    extra = {'monitor2_callgrind': [], 'monitor1_ptrace': [], 'monitor3_memcheck_taint': []}
    inconclusive = []
    configs = [('64-bit backend (default build)', victim, targets)]
    if not replay or os.environ.get('C19_REPLAY_F32'):
        try:
            victim32 = R.build('f32', binary='ctvictim')
            configs.append(('32-bit limb backend (force-32bits build)', victim32, [t for t in targets if t in LARGE]))
        except R.Inconclusive as e:
            inconclusive.append('force-32bits victim not built: %s' % str(e)[-200:])
    # the same sources optimised as one unit: inlining decisions differ (a masked select that stays branch-free only because a helper is
    # not inlined shows here)
    if not replay or os.environ.get('C19_REPLAY_CGU1'):
        try:
            victim_cgu1 = R.build('cgu1', binary='ctvictim')
            configs.append(('whole-crate optimisation (-C codegen-units=1)', victim_cgu1, targets))
        except R.Inconclusive as e:
            inconclusive.append('codegen-units=1 victim not built: %s' % str(e)[-200:])
    # optimised builds that keep overflow checks and debug assertions (fuzzing / hardened release profiles), and the size-optimised build
    for cfgname, label_ in (('chk', 'optimised build with overflow checks and debug assertions'), ('os', 'size-optimised build (-C opt-level=s)')):
        if not replay or os.environ.get('C19_REPLAY_' + cfgname.upper()):
            try:
                configs.append((label_, R.build(cfgname, binary='ctvictim'), targets))
            except R.Inconclusive as e:
                inconclusive.append('%s victim not built: %s' % (cfgname, str(e)[-200:]))
    # the library as a pure Ed25519 / X25519 user compiles it (cargo features ed25519 + x25519 only)
    if not replay or os.environ.get('C19_REPLAY_CURVEONLY'):
        try:
            victim_co = R.build('curveonly', binary='ctvictim')
            configs.append(('curve-only feature set (--no-default-features --features ed25519,x25519)', victim_co, [t for t in targets if t in LARGE]))
        except R.Inconclusive as e:
            inconclusive.append('curve-only victim not built: %s' % str(e)[-200:])
    # the vectorised build: SHA-256 (AVX 8-way / SSE4.1 4-way), BLAKE2 (AVX / AVX2) and everything built on them
    if (not replay or os.environ.get('C19_REPLAY_AVX2')) and ' avx2 ' in open('/proc/cpuinfo').read().replace('\n', ' '):
        try:
            victim_avx2 = R.build('avx2', binary='ctvictim')
            configs.append(('vectorised build (+avx2)', victim_avx2, [t for t in targets if t in AVX2_TARGETS]))
        except R.Inconclusive as e:
            inconclusive.append('+avx2 victim not built: %s' % str(e)[-200:])
    for label, vic, tgts in configs:
        _monitors(rep, extra, inconclusive, label, vic, tgts, secrets, wd, tracer, thorough, replay)
    rep.samples = ['%s %s (%s)' % (t, secrets[t][i][1].hex(), secrets[t][i][0]) for t in targets[:8] for i in (0, min(3, len(secrets[t]) - 1))]
    extra['targets'] = targets
    if inconclusive:
        extra['inconclusive_parts'] = inconclusive
        if not rep.violations:
            rep.write_evidence(extra, 0, inconclusive=True)
            print('INCONCLUSIVE property=C19 %s' % '; '.join(inconclusive)[:600])
            return 2
    return rep.finish(None if replay else FLOORS, extra)   # a replay re-runs a handful of cases: no floors
