"""C01 - every digest equals its standard function on every message."""
import hashlib
from ..codec import Rng, expand, spec_len, lit
from .. import oracle as o

ID = 'C01'
RULE = ('one record per (function, parameters, message); exhaustive lengths 0..=4*block+1 per fixed variant, BLAKE2 (outlen,keylen) '
        'grids, sampled lengths up to 64 KiB (and huge periodic messages in thorough), every variant with the message at byte offsets 1..15, 17, 31, 33 of an aligned buffer; a case is non-trivial and distinct by '
        '(entry point, variant, outlen, keylen, message length, content class)')
ASSUMPTIONS = ['hashlib (OpenSSL / CPython _blake2) is correct for SHA-1/2/3, RIPEMD-160, BLAKE2',
               'pure-Python Keccak model pinned by SHA-3 equivalence and Keccak KATs (selftest)']
FLOORS = {'evaluations': 20000, 'distinct': 15000}
THOROUGH_ROUNDS = 3   # thorough tier: generator passes with derived seeds (runner.gen_rounds)
EXTRA_CFGS = ['f32']   # the workload is also executed by the force-32bits build of the library; results must not change (runner.standard_check)

FIXED = ['sha1', 'sha224', 'sha256', 'sha384', 'sha512', 'sha512_224', 'sha512_256', 'sha3_224', 'sha3_256', 'sha3_384', 'sha3_512',
         'keccak224', 'keccak256', 'keccak384', 'keccak512', 'ripemd160', 'blake2b_224', 'blake2b_256', 'blake2b_384', 'blake2b_512',
         'blake2s_224', 'blake2s_256']
B2B_BITS = [8 * i for i in range(1, 65)] + [1, 9, 250, 505]
B2S_BITS = [8 * i for i in range(1, 33)] + [1, 9, 250]


def content_specs(rng, n, all_classes):
    """data specs of length n: random always; structured ones at boundary lengths"""
    out = [('rnd', rng.data(n))]
    if all_classes and n > 0:
        out += [('00', '=00:%d' % n), ('ff', '=ff:%d' % n), ('80', '=80:%d' % n)]
    return out


def gen(tier, seed):
    rng = Rng('C01', seed)
    thorough = tier == 'thorough'
    for v in FIXED:
        bs = o.BLOCK[v]
        for n in range(0, 4 * bs + 2):
            boundary = (n % bs) in (0, 1) or (n % bs) >= bs - 17
            for cls, d in content_specs(rng, n, boundary):
                yield 'hash %s %s #%s' % (v, d, cls)
        nbig = 300 if thorough else 24
        for i in range(nbig):
            n = rng.rng(4 * bs + 2, 65536)
            if i % 3 == 0:  # land near a block boundary
                n = (n // bs) * bs + rng.choice([-17, -9, -8, -1, 0, 1, bs - 9, bs - 1]) % bs
            yield 'hash %s %s #rnd' % (v, rng.data(n))
        yield 'hash %s %s #rnd' % (v, rng.data(1 << 20))
    # the message starts at every byte offset 1..15 (and 17, 31, 33) of a 64-byte aligned buffer: a block function that reads the
    # caller's memory in place must not depend on its alignment
    for v in FIXED:
        bs = o.BLOCK[v]
        for off in list(range(1, 16)) + [17, 31, 33]:
            for n in (bs, 2 * bs + 5, 3 * bs + rng.rng(0, bs)):
                yield 'hashoff %s %d %s #offset/%d' % (v, off, rng.data(n), off % 8)
    # BLAKE2 parameter grids: dynamic contexts, every (outlen, keylen)
    for name, maxo, maxk, bs in (('b2b', 64, 64, 128), ('b2s', 32, 32, 64)):
        lens = [0, 1, bs - 1, bs, bs + 1, 2 * bs, 2 * bs + 1]
        for ol in range(1, maxo + 1):
            for kl in range(0, maxk + 1):
                key = rng.data(kl)
                for n in lens + [rng.rng(2 * bs + 2, 5 * bs)]:
                    yield '%s %d %s %s #rnd' % (name, ol, key, rng.data(n))
    # typed contexts Context<BITS> for every compiled BITS, legacy one-shot
    for name, bits_list, bs, maxk in (('b2bt', B2B_BITS, 128, 64), ('b2st', B2S_BITS, 64, 32)):
        for bits in bits_list:
            for kl in (0, 1, maxk // 2, maxk):
                for n in (0, 1, bs - 1, bs, bs + 1, 2 * bs, 3 * bs + 7):
                    yield '%s %d %s %s #rnd' % (name, bits, rng.data(kl), rng.data(n))
    for name, maxo, maxk, bs in (('b2blegacy', 64, 64, 128), ('b2slegacy', 32, 32, 64)):
        for ol in (1, 2, maxo // 2, maxo - 1, maxo):
            for kl in (0, 1, maxk - 1, maxk):
                for n in (0, 1, bs - 1, bs, bs + 1, 2 * bs, 2 * bs + 1, 300):
                    yield '%s %d %s %s #rnd' % (name, ol, rng.data(kl), rng.data(n))
    else:
        for v in ('sha1', 'sha256', 'ripemd160'):
            yield 'hash %s %%%d:4093:%d #huge' % (v, rng.below(1000), (1 << 29) + rng.below(64))
    if thorough:
        # bit-length field passing 2^32 (> 512 MiB) for the 64-byte-block Merkle-Damgard functions, and a 4 GiB+ BLAKE2s
        for v in ('sha1', 'sha256', 'ripemd160', 'sha224'):
            yield 'hash %s %%%d:4093:%d #huge' % (v, rng.below(1000), (1 << 29) + 1 + rng.below(200))
        yield 'hash sha512 %%%d:4093:%d #huge' % (rng.below(1000), (1 << 29) + 77)
        yield 'hash sha3_256 %%%d:4093:%d #huge' % (rng.below(1000), (1 << 28) + 135)
        yield 'hash blake2s_256 %%%d:4093:%d #huge' % (rng.below(1000), (1 << 32) + 65)


def parse(line):
    body, _, cls = line.partition(' #')
    return body.split(), cls


def expected(f):
    op = f[0]
    if op == 'hash':
        return o.HASHES[f[1]](expand(f[2]))
    if op == 'hashoff':
        return o.HASHES[f[1]](expand(f[3]))
    if op in ('b2b', 'b2blegacy'):
        return o.blake2b(int(f[1]), expand(f[2]), expand(f[3]))
    if op in ('b2s', 'b2slegacy'):
        return o.blake2s(int(f[1]), expand(f[2]), expand(f[3]))
    if op == 'b2bt':
        return o.blake2b((int(f[1]) + 7) // 8, expand(f[2]), expand(f[3]))
    if op == 'b2st':
        return o.blake2s((int(f[1]) + 7) // 8, expand(f[2]), expand(f[3]))
    raise KeyError(op)


def check(line, toks):
    f, cls = parse(line)
    exp = expected(f).hex()
    if len(toks) != 1 or toks[0] != exp:
        variant = f[1] if f[0] in ('hash', 'hashoff') else f[0]
        return [('C01:%s:digest-mismatch' % variant, 'expected %s got %s' % (exp, ' '.join(toks)[:200]))]
    return []


def classify(line):
    f, cls = parse(line)
    if f[0] == 'hash':
        return (f[0], f[1], spec_len(f[2]), cls)
    if f[0] == 'hashoff':
        return (f[0], f[1], f[2], spec_len(f[3]), cls)
    return (f[0], f[1], spec_len(f[2]), spec_len(f[3]), cls)


def coverage(line, toks):
    f, cls = parse(line)
    if f[0] == 'hashoff':
        return ['%s:input-at-offset' % f[1]]
    if f[0] == 'hash':
        bs = o.BLOCK[f[1]]
        n = spec_len(f[2])
        r = n % bs
        if r in (0, 1) or r >= bs - 17:
            return ['%s:len%%bs=%s' % (f[1], r if r < 2 else 'bs-%d' % (bs - r))]
    return []


def san_subset(lines):
    """boundary-length subset for sanitizers"""
    out = []
    for l in lines:
        f, cls = parse(l)
        if f[0] == 'hash' and cls == 'rnd':
            bs = o.BLOCK[f[1]]; n = spec_len(f[2])
            if n <= 2 * bs + 1 and ((n % bs) in (0, 1, bs - 1) or (n % bs) in (bs - 9, bs - 8, bs - 17, bs - 16)):
                out.append(l)
    return out
