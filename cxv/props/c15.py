"""C15 - field, scalar and group arithmetic match GF(2^255-19), Z/L and the curve."""
from ..codec import Rng, expand, spec_len
from .. import oracle as o

ID = 'C15'
RULE = ('field: straight-line programs over the public operators inside the operand discipline the crate itself uses (ref10 magnitude units: add/sub add the units of their operands and every consumer '
        '- mul, square, invert, pow, encoding, sign/zero tests, == - receives at most 3 units), every register compared with Python integers mod p (canonical bytes, sign, zero test, ==), inputs from boundary and limb-boundary '
        'values, plus algebraic-identity programs that reach zero by different routes, result-directed programs x*(x^-1*T) whose product must encode as a target T with extreme limb patterns, square_and_double(sqrt(T)) for such T used as subtrahend / negated / doubled, and (64-bit backend) sums of up to 40 summands and 2^14-fold doublings before every consumer; scalars: wide reduction on 0, L-1, L, L+1, kL(+-1), every 2^k, sparse and dense patterns, '
        'canonical decoder on values around L and byte-reversed L; a*b+c mod L (hook) with operands solved so that the result has a chosen 21-bit / 56-bit limb (or run of limbs) all zeros / all ones; group: fixed-base multiplication for every single-nibble scalar and boundary scalars, double-scalar '
        'multiplication incl. every small odd b and 2^k-j, doubling/addition/conversion chains, register programs over full points in which every result (doublings of every flavour, owned-operand and GePrecomp::ZERO operators) is used again as an operand of + and -, decode(encode(P)), every precomputed table entry and every select() argument '
        '(through the read-only hook); distinct = (op family, shape/class)')
ASSUMPTIONS = ['bulk phase: the force-32bits backend serves as a second implementation for locating rare disagreements; a disagreement is reported only when the Python model shows the default build wrong, and sampled outputs are always checked against the Python model', 'Python integers modulo p and L; Edwards arithmetic of the C13/C14 oracle']
FLOORS = {'evaluations': 5000, 'distinct': 3000, 'coverage': {'table:GE_BASE': 256, 'table:BI': 8, 'select': 32 * 17}}
THOROUGH_ROUNDS = 40   # thorough tier: generator passes with derived seeds (runner.gen_rounds)
# bulk phase (cxv/bulk.py): wide reduction, field expressions (mul, square, add, sub, double-square, encoding, sign/zero/==), inversion and the (p-5)/8 power, a*A + b*B
BULK = {'quick': [('sc_reduce', 1 << 20, 1 << 14), ('sc_muladd', 1 << 21, 1 << 14), ('fe_mix', 1 << 20, 1 << 14), ('fe_inv', 1 << 15, 1024), ('ge_dsm', 1 << 13, 512)],
        'thorough': [('sc_reduce', 1 << 27, 1 << 17), ('sc_muladd', 1 << 27, 1 << 17), ('fe_mix', 1 << 27, 1 << 17), ('fe_inv', 1 << 23, 1 << 13), ('ge_dsm', 1 << 21, 4096)]}
P, L = o.P, o.L
M255 = (1 << 255) - 1


def le32(v):
    return (v % (1 << 256)).to_bytes(32, 'little').hex()


FE_INPUTS = [0, 1, 2, 19, P - 1, P, P + 1, P - 2, P + 18, (1 << 255) - 1, (1 << 256) - 1, (1 << 255), (1 << 255) + 18,
             (1 << 25) - 1, (1 << 25), (1 << 25) + 1, (1 << 26) - 1, (1 << 26), (1 << 26) + 1, (1 << 51) - 1, (1 << 51), (1 << 51) + 1,
             (1 << 102) - 1, (1 << 102), (1 << 153) - 1, (1 << 204) - 1, (1 << 204), (1 << 230) - 1, (1 << 230), (1 << 254), (1 << 254) - 1,
             int('55' * 32, 16), int('aa' * 32, 16) & M255, ((1 << 255) - 1) ^ ((1 << 128) - 1), (1 << 128) - 1]


def structured_fe(rng):
    """a 255/256-bit value whose 25.5-bit (32-bit backend) or 51-bit (64-bit backend) limbs are all-ones / zero / one patterns"""
    v = 0
    if rng.below(2):
        pos = 0
        for i in range(10):
            w = 26 if i % 2 == 0 else 25
            c = rng.below(8)
            limb = rng.below(1 << w) if c >= 6 else [0, 1, (1 << w) - 1, (1 << w) - 2, 1 << (w - 1), (1 << w) - 19][c]
            v |= limb << pos
            pos += w
    else:
        for i in range(5):
            c = rng.below(8)
            limb = rng.below(1 << 51) if c >= 6 else [0, 1, (1 << 51) - 1, (1 << 51) - 2, 1 << 50, (1 << 51) - 19][c]
            v |= limb << (51 * i)
    if rng.below(4) == 0:
        v |= 1 << 255
    return v


def fe_program(rng, nops):
    """random straight-line program.  Magnitude bookkeeping in ref10 "units" (1 unit = a freshly carried element:
    from_bytes / mul / square / invert / pow output): add/sub add the units of their operands, neg keeps them; every consumer
    (mul, square, ..., encoding, sign/zero tests, ==) is only ever given <= 3 units, which is what the crate's own group
    formulas do (e.g. d = zz+zz; z3 = d + c; then z3 * t)."""
    steps, units = [], []
    nin = rng.rng(2, 5)
    for _ in range(nin):
        c = rng.below(6)
        v = rng.choice(FE_INPUTS) if c < 2 else (structured_fe(rng) if c < 4 else int.from_bytes(rng.bytes(32), 'little'))
        steps.append('in.' + le32(v)); units.append(1)
    for _ in range(nops):
        r = rng.below(100)
        anyr = list(range(len(units)))
        if r < 42:
            a = rng.choice(anyr)
            cands = [i for i in anyr if units[a] + units[i] <= 3]
            if r < 36 and cands:
                b = rng.choice(cands)
                steps.append('%s.%d.%d' % ('add' if r < 18 else 'sub', a, b)); units.append(units[a] + units[b])
            else:
                steps.append('neg.%d' % a); units.append(units[a])
        elif r < 66:
            steps.append('mul.%d.%d' % (rng.choice(anyr), rng.choice(anyr))); units.append(1)
        elif r < 78:
            steps.append('sq.%d' % rng.choice(anyr)); units.append(1)
        elif r < 84:
            a = rng.choice(anyr); n = rng.choice([0, 1, 2, 3, 5, 10, 50])
            steps.append('sqn.%d.%d' % (a, n)); units.append(units[a] if n == 0 else 1)      # zero squarings return the operand as it is (not carried)
        elif r < 90:
            steps.append('sq2.%d' % rng.choice(anyr)); units.append(1)
        elif r < 94:
            steps.append('inv.%d' % rng.choice(anyr)); units.append(1)
        elif r < 97:
            steps.append('pow.%d' % rng.choice(anyr)); units.append(1)
        else:
            steps.append('eq.%d.%d' % (rng.choice(anyr), rng.choice(anyr)))
    return steps


def deep_add_program(rng):
    """64-bit backend only (its `+` carries, so sums of sums are ordinary operands; the 32-bit backend documents a magnitude
    precondition on `+` instead and is never given these): long chains of additions / doublings, then every kind of consumer."""
    def rv():
        c = rng.below(8)
        return le32(rng.choice(FE_INPUTS) if c < 3 else (structured_fe(rng) if c < 5 else int.from_bytes(rng.bytes(32), 'little')))
    steps = ['in.' + rv(), 'in.' + rv(), 'in.' + le32(P - 1), 'in.' + le32((1 << 255) - 1)]
    acc = rng.below(4)
    for _ in range(rng.choice([4, 5, 6, 8, 9, 12, 16, 17, 24, 40])):
        r = rng.below(10)
        other = acc if r < 4 else rng.below(len(steps))
        steps.append('add.%d.%d' % (acc, other))
        acc = len(steps) - 1
        if r == 9:
            steps.append('sub.%d.%d' % (rng.below(len(steps)), acc))
    if rng.below(4) == 0:
        for _ in range(rng.choice([10, 13, 14, 20])):     # doublings: 2^13 = 8192-fold sums
            steps.append('add.%d.%d' % (acc, acc)); acc = len(steps) - 1
    n = len(steps)
    steps += ['neg.%d' % acc, 'sub.0.%d' % acc, 'sub.%d.1' % acc, 'mul.%d.%d' % (acc, acc), 'sq.%d' % acc, 'sq2.%d' % acc, 'sqn.%d.2' % acc, 'mul.%d.0' % acc,
              'inv.%d' % acc, 'pow.%d' % acc, 'eq.%d.%d' % (acc, n - 2), 'add.%d.%d' % (n, acc), 'eq.%d.2' % acc]
    return steps


def identity_programs(rng):
    """programs whose last registers are equal mod p by construction but reached through different limb patterns"""
    def rv():
        c = rng.below(8)
        return le32(rng.choice(FE_INPUTS) if c < 2 else (structured_fe(rng) if c < 4 else int.from_bytes(rng.bytes(32), 'little')))
    x, y, z = rv(), rv(), rv()
    zero = le32(0); one = le32(1)
    progs = [
        # distributivity without the intermediate carry: d = x*(y+z) - (x*y + x*z) == 0 as a 3-unit value; also (x*y + x*z) - x*(y+z)
        ['in.' + x, 'in.' + y, 'in.' + z, 'in.' + zero, 'add.1.2', 'mul.0.4', 'mul.0.1', 'mul.0.2', 'add.6.7', 'sub.5.8', 'eq.9.3', 'sub.8.5', 'eq.10.3', 'eq.5.8'],
        # d = x*(y+z) - (x*y + x*z) == 0      regs: 0 x,1 y,2 z,3 zero,4 y+z,5 x*(y+z),6 xy,7 xz,8 xy+xz(l1) -> need reduced: multiply by one
        ['in.' + x, 'in.' + y, 'in.' + z, 'in.' + zero, 'in.' + one, 'add.1.2', 'mul.0.5', 'mul.0.1', 'mul.0.2', 'add.7.8', 'mul.9.4', 'sub.6.10', 'eq.11.3', 'mul.11.4', 'eq.12.3'],
        # x - x, -0, x + (-x) via mul by one
        ['in.' + x, 'in.' + zero, 'in.' + one, 'sub.0.0', 'eq.3.1', 'neg.1', 'eq.4.1', 'neg.0', 'mul.5.2', 'add.0.6', 'eq.7.1'],
        # (x+y)^2 == x^2 + 2xy + y^2
        ['in.' + x, 'in.' + y, 'in.' + one, 'add.0.1', 'sq.3', 'sq.0', 'sq.1', 'mul.0.1', 'add.7.7', 'mul.8.2', 'add.5.6', 'mul.10.2', 'add.11.9', 'eq.4.12', 'sub.4.11', 'eq.13.9'],
        # x * inv(x) == 1 (or 0 when x == 0); sq2(x) == x^2 + x^2; sqn(x,3) == ((x^2)^2)^2
        ['in.' + x, 'in.' + one, 'inv.0', 'mul.0.2', 'eq.3.1', 'sq2.0', 'sq.0', 'add.5.5', 'eq.4.6', 'sqn.0.3', 'sq.5', 'sq.8', 'eq.7.9'],
        # p - 1 + 1 == 0, from_bytes(2^25-1) + 1 == from_bytes(2^25), 2^255-19+k == k
        ['in.' + le32(P - 1), 'in.' + one, 'in.' + zero, 'add.0.1', 'eq.3.2', 'in.' + le32((1 << 25) - 1), 'in.' + le32(1 << 25), 'add.4.1', 'eq.6.5',
         'in.' + le32((1 << 51) - 1), 'in.' + le32(1 << 51), 'add.7.1', 'eq.9.8', 'in.' + le32(P + 5), 'in.' + le32(5), 'eq.10.11', 'in.' + le32((1 << 255) + 24), 'eq.12.11'],
    ]
    return progs


LIMB_EXPS = [0, 25, 26, 51, 76, 77, 102, 127, 128, 153, 178, 179, 204, 229, 230, 255]


def directed_targets(rng, n):
    """field values with extreme limb patterns for the *result* of a multiplication"""
    out = []
    for a in LIMB_EXPS:
        for b in LIMB_EXPS:
            if a > b:
                out += [(1 << a) + (1 << b), (1 << a) - (1 << b), P - (1 << a) + (1 << b), P - (1 << a) - (1 << b)]
    out += list(range(0, 40)) + [P - k for k in range(1, 40)] + [(1 << 51) - 1, (1 << 51), (1 << 51) + 19, (1 << 26) - 19, (1 << 255) - 20]
    out = [v % P for v in out]
    rng.shuffle(out)
    out = out[:n]
    out += [structured_fe(rng) % P for _ in range(n // 2)]
    return out


def result_directed_program(rng, T):
    """r = x * (x^-1 * T) == T : the multiplication's output (whatever its internal representation) must encode as T"""
    x = int.from_bytes(rng.bytes(32), 'little') if rng.below(4) else structured_fe(rng)
    if x % P == 0:
        x = 3
    # regs: 0 x, 1 T, 2 inv x, 3 inv*T, 4 x*(inv*T), 5 T*T? no: 5 = (x*T)*inv, then sums/differences of the two routes
    return ['in.' + le32(x), 'in.' + le32(T), 'inv.0', 'mul.2.1', 'mul.0.3', 'mul.0.1', 'mul.5.2', 'eq.4.1', 'eq.6.1', 'eq.4.6', 'sub.4.6', 'sub.6.1', 'add.4.1']


def fe_sqrt(t):
    """a square root of t modulo p, or None (p = 5 mod 8)"""
    t %= P
    x = pow(t, (P + 3) // 8, P)
    if (x * x - t) % P:
        x = x * o.SQRTM1 % P
    return None if (x * x - t) % P else x


def sq2_directed_program(rng, T):
    """x = sqrt(T): square_and_double(x) = 2T leaves the doubled limbs of a value with an extreme limb pattern (64-bit backend: uncarried);
    it is then used as subtrahend, negated, added to itself and fed to every consumer"""
    x = fe_sqrt(T)
    if x is None:
        return None
    if rng.below(2):
        x = P - x
    # regs: 0 x, 1 zero, 2 one, 3 p-1, 4 sq2(x) = 2T, 5 sq(x) = T
    return ['in.' + le32(x), 'in.' + le32(0), 'in.' + le32(1), 'in.' + le32(P - 1), 'sq2.0', 'sq.0', 'neg.4', 'sub.1.4', 'sub.2.4', 'sub.3.4', 'sub.4.2', 'sub.5.4', 'sub.4.5',
            'add.4.4', 'neg.13', 'sub.1.13', 'add.5.5', 'eq.4.16', 'mul.4.2', 'eq.17.4', 'sq.4', 'sq2.4', 'sub.1.19', 'inv.4', 'mul.20.4' if False else 'mul.21.4']


def single_nibble_scalars():
    for i in range(64):
        for v in range(1, 16):
            s = v << (4 * i)
            if s < (1 << 255):
                yield s, 'nibble'


SC_SPECIAL = [0, 1, 2, 8, L - 1, L, L + 1, (1 << 252), (1 << 252) - 1, (1 << 253) - 1, (1 << 254), (1 << 255) - 1, (1 << 255) - 19, 2 * L, 8 * L - 1, int('08' + '88' * 31, 16), int('77' * 32, 16) & M255,
              int('09' + '99' * 31, 16), int('78' + 'f8' * 31, 16)]


WORDS64 = [0x7777777777777777, 0x7777777777777778, 0x8888888888888888, 0x8888888888888887, 0x7777777777777776, 0xffffffffffffffff, 0, 1,
           0x8000000000000000, 0x7fffffffffffffff, 0xf777777777777777, 0x77777777ffffffff, 0x8777777777777777, 0x7777777777777787]


def word_pattern_scalars(rng, count):
    out = []
    for i in range(count):
        ws = [rng.choice(WORDS64) if rng.below(5) else (rng.choice(WORDS64[:5]) if rng.below(2) else rng.below(1 << 64)) for _ in range(4)]
        if i % 3 == 0:      # a carry-producing word directly below a word of sevens
            j = rng.below(3)
            ws[j + 1] = 0x7777777777777777
            ws[j] = rng.choice([0xf777777777777777, 0x8888888888888888, 0xffffffffffffffff, (rng.below(1 << 60)) | (0x8 << 60)])
        v = sum(w << (64 * k) for k, w in enumerate(ws))
        out.append(v & M255)
    return out


def gen(tier, seed):
    rng = Rng('C15', seed)
    thorough = tier == 'thorough'
    # ---- field
    for _ in range(6000 if thorough else 1200):
        yield 'fe %s #fe-random' % ' '.join(fe_program(rng, rng.rng(8, 40)))
    for _ in range(1500 if thorough else 300):
        for pr in identity_programs(rng):
            yield 'fe %s #fe-identity' % ' '.join(pr)
    for T in directed_targets(rng, 2500 if thorough else 500):
        yield 'fe %s #fe-result-directed' % ' '.join(result_directed_program(rng, T))
    for _ in range(2000 if thorough else 400):
        yield 'fe %s #fe-deep64' % ' '.join(deep_add_program(rng))
    n = 0
    for T in directed_targets(rng, 4000 if thorough else 900):
        pr = sq2_directed_program(rng, T)
        if pr:
            yield 'fe %s #fe-sq2-directed' % ' '.join(pr)
            n += 1
    # the public constants: their encodings (sqrt(-1) is the root 2^((p-1)/4) of RFC 8032, d = -121665/121666, 2d), and programs that use them
    yield 'consts #consts'
    for _ in range(200 if thorough else 40):
        x = le32(rng.choice(FE_INPUTS) if rng.below(3) == 0 else int.from_bytes(rng.bytes(32), 'little'))
        yield 'fe in.%s k.SQRTM1 k.D k.D2 k.ONE k.ZERO sq.1 add.6.4 eq.7.5 add.2.2 eq.8.3 mul.0.1 mul.0.2 mul.0.3 sub.11.10 eq.12.10 neg.1 inv.1 eq.13.14 #fe-constants' % x
    for v in FE_INPUTS:
        yield 'fe in.%s in.%s sqn.0.0 sqn.1.0 sqn.2.1 sq.0 eq.2.0 eq.5.4 #fe-sqn0' % (le32(v), le32(rng.choice(FE_INPUTS)))
    for v in FE_INPUTS:
        yield 'fe in.%s in.%s mul.0.1 sq.0 inv.0 pow.0 sq2.0 sqn.0.4 add.0.1 sub.1.0 neg.0 eq.0.1 #fe-edge' % (le32(v), le32(rng.choice(FE_INPUTS)))
    # ---- scalars
    wide = [0, 1, L - 1, L, L + 1, 2 * L, (1 << 512) - 1, (1 << 256) - 1, (1 << 256), (1 << 264), (1 << 264) - 1, (1 << 300), (1 << 511), L * L, L * L - 1, (L - 1) * (L - 1), ((1 << 512) - 1) // L * L]
    wide += [k * L + d for k in (1, 3, 1 << 100, (1 << 259) - 1) for d in (-1, 0, 1)]
    wide += [1 << k for k in range(512)] + [(1 << k) - 1 for k in range(250, 512, 3)]
    for _ in range(3000 if thorough else 600):
        wide.append(int.from_bytes(rng.bytes(64), 'little'))
        # sparse / structured: zero low part, random high part
        hi = int.from_bytes(rng.bytes(rng.rng(1, 31)), 'little')
        wide.append((hi << (8 * rng.choice([32, 33, 34, 40]))) & ((1 << 512) - 1))
    # structured limbs: ref10 loads 24 x 21-bit limbs (32-bit backend), donna 56-bit limbs (64-bit backend); all-ones / zero / one
    # limbs produce the extreme carry patterns of the folding steps
    pats21 = [0, 1, 0x1fffff, 0x1ffffe, 0x100000, 0x0fffff]
    for _ in range(60000 if thorough else 12000):
        v = 0
        dense = rng.below(3)
        for i in range(25):
            c = rng.below(10)
            limb = rng.below(1 << 21) if (c >= 7 and dense) else pats21[c % 6]
            v |= limb << (21 * i)
        wide.append(v & ((1 << 512) - 1))
    pats56 = [0, 1, (1 << 56) - 1, (1 << 56) - 2, 1 << 55]
    for _ in range(6000 if thorough else 1500):
        v = 0
        for i in range(10):
            c = rng.below(8)
            v |= (rng.below(1 << 56) if c >= 6 else pats56[c % 5]) << (56 * i)
        wide.append(v & ((1 << 512) - 1))
    for v in wide:
        yield 'sc_reduce %s #sc-reduce' % (v % (1 << 512)).to_bytes(64, 'little').hex()
    # ---- a*b + c mod L (the routine signing uses, through the hook): result-directed operands.  The result S is chosen first, with
    # one 21-bit limb (32-bit backend) or one 56-bit limb (64-bit backend) - or a run of limbs - all zeros / all ones and the limbs
    # below it small / large / random, so that the final carry chains ripple (or borrow) across that position; a and b are arbitrary
    # 256-bit values of several classes and c = S - a*b mod L is the canonical addend
    def ab_class():
        k = rng.below(6)
        if k == 0:
            return rng.below(L)
        if k == 1:
            v = bytearray(rng.bytes(32)); v[0] &= 248; v[31] &= 127; v[31] |= 64
            return int.from_bytes(v, 'little')
        if k == 2:
            return int.from_bytes(rng.bytes(32), 'little')
        if k == 3:
            return L - 1 - rng.below(1 << rng.choice([1, 20, 64, 128]))
        if k == 4:
            return (1 << 256) - 1 - rng.below(1 << rng.choice([1, 21, 56, 130]))
        return rng.below(1 << rng.choice([1, 21, 56, 128, 252]))
    def directed_S(w, nl):
        i = rng.below(nl)
        run = rng.choice([1, 1, 1, 2, 3])
        ones = rng.below(2)
        v = rng.below(L)
        for j in range(i, min(nl, i + run)):
            v &= ~(((1 << w) - 1) << (w * j))
            if ones:
                v |= ((1 << w) - 1) << (w * j)
        low = rng.below(4)
        if i and low < 3:
            m = (1 << (w * i)) - 1
            v &= ~m
            v |= {0: rng.below(1 << rng.choice([1, 8, w])), 1: m - rng.below(1 << rng.choice([1, 8, w])), 2: rng.below(m + 1) >> rng.below(4)}[low] & m
        return v % L, '%d/%d' % (w, i)
    for w, nl, cnt in ((21, 12, 2400 if not thorough else 6000), (56, 5, 600 if not thorough else 2000)):
        for _ in range(cnt):
            S, tag = directed_S(w, nl)
            a, b = ab_class(), ab_class()
            c = (S - a * b) % L
            yield 'sc_muladd %s %s %s #sc-muladd-directed/%s' % (le32(a), le32(b), le32(c), tag)
    for a in SC_SPECIAL[:14]:
        for b in SC_SPECIAL[:14]:
            yield 'sc_muladd %s %s %s #sc-muladd-special' % (le32(a), le32(b), le32(rng.choice([0, 1, L - 1, rng.below(L)])))
    for _ in range(2000 if thorough else 400):
        yield 'sc_muladd %s %s %s #sc-muladd-random' % (le32(ab_class()), le32(ab_class()), le32(rng.below(L)))
    canon = [0, 1, L - 1, L, L + 1, L - 2, L + 2, (1 << 252), (1 << 252) - 1, (1 << 253) - 1, (1 << 255) - 1, (1 << 256) - 1, 2 * L, 2 * L - 1,
             int.from_bytes(L.to_bytes(32, 'big'), 'little'), int.from_bytes(L.to_bytes(32, 'big'), 'little') + 1, int.from_bytes(L.to_bytes(32, 'big'), 'little') - 1]
    canon += [L - k for k in range(3, 300)] + [L + (1 << k) for k in range(0, 252, 7)] + [L - (1 << k) for k in range(0, 252, 7)]
    c_ = L - (1 << 252)
    for j in range(5):
        for a in (1, 2, 1 << 27, (1 << 55), (1 << 56) - 1, rng.below(1 << 56) | 1):
            for b in (0, 1, c_ - 1, c_, c_ + 1, rng.below(c_)):
                canon.append(((1 << 252) + (a << (56 * j) if j < 4 else a << 224) + b) % (1 << 256))
                canon.append((a << (56 * j)) + b if j < 4 else (a << 196) + b)
    canon += [L - 1 + (1 << k) for k in range(0, 256, 3)] + [(1 << 252) + (1 << k) for k in range(0, 252, 3)]
    canon += [int.from_bytes(rng.bytes(32), 'little') for _ in range(200)] + [int.from_bytes(rng.bytes(32), 'little') % L for _ in range(100)]
    for v in canon:
        yield 'sc_canon %s #sc-canon' % le32(v)
    for _ in range(40):
        a = int.from_bytes(rng.bytes(32), 'little')
        yield 'sc_rt %s %s #sc-rt' % (le32(a), le32(a))
        yield 'sc_rt %s %s #sc-rt' % (le32(a), le32(a ^ (1 << rng.below(256))))
    for a in (0, L, L - 1, (1 << 256) - 1):
        yield 'sc_rt %s %s #sc-rt' % (le32(a), le32((a + L) % (1 << 256)))
    # ---- group: fixed base
    for s, cls in single_nibble_scalars():
        yield 'ge_base %s #base-nibble' % le32(s)
    for s in SC_SPECIAL:
        yield 'ge_base %s #base-special' % le32(s)
    for _ in range(300 if thorough else 60):
        yield 'ge_base %s #base-random' % le32(int.from_bytes(rng.bytes(32), 'little') & M255)
    # scalars made of 64-bit / 32-bit words whose nibbles all sit on the recoding boundary (7 / 8), all-ones, zero: a word-at-a-time
    # signed-digit recoding has its carries exactly between such words
    for v in word_pattern_scalars(rng, 400 if thorough else 120):
        yield 'ge_base %s #base-word-pattern' % le32(v)
    # ---- tables through the hook
    for pos in range(32):
        for idx in range(8):
            yield 'ge_table base %d %d #table' % (pos, idx)
        for b in range(-8, 9):
            yield 'ge_select %d %d #select' % (pos, b)
    for idx in range(8):
        yield 'ge_table bi %d #table' % idx
    # ---- double scalar multiplication
    pts = ['Z', 'B:' + le32(1), 'B:' + le32(rng.below(L)), 'B:' + le32(rng.below(L))]
    from .c14 import small_order_points
    so = small_order_points()
    dpts = ['D:' + o.ed_encode(pt).hex() for pt in so] + ['D:' + o.ed_sign(rng.bytes(32), b'')[0].hex() for _ in range(3)]
    for b in list(range(0, 40)) + [(1 << k) - j for k in (5, 6, 7, 8, 100, 252) for j in range(0, 18)]:
        yield 'ge_dsm %s %s %s #dsm-b-window' % (le32(0), 'Z', le32(b))
        yield 'ge_dsm %s %s %s #dsm-a-window' % (le32(b), rng.choice(pts[1:]), le32(0))
    for a in SC_SPECIAL[:14]:
        for b in (SC_SPECIAL[1], SC_SPECIAL[4], SC_SPECIAL[11], rng.below(L)):
            yield 'ge_dsm %s %s %s #dsm-special' % (le32(a), rng.choice(pts), le32(b))
    for _ in range(400 if thorough else 80):
        yield 'ge_dsm %s %s %s #dsm-random' % (le32(int.from_bytes(rng.bytes(32), 'little') & M255), rng.choice(pts), le32(int.from_bytes(rng.bytes(32), 'little') & M255))
    for p in dpts:
        for _ in range(2):
            yield 'ge_dsm %s %s %s #dsm-decoded' % (le32(rng.below(L)), p, le32(rng.below(L)))
    # ---- chains
    ops = ['rt', 'rtp', 'dbl', 'dblp', 'dblp1', 'pdbl', 'pdblf', 'pdblp1', 'add', 'addp', 'sub', 'subv', 'mix']
    base_pts = ['Z', 'B:' + le32(1), 'B:' + le32(2), 'B:' + le32(L - 1), 'B:' + le32(L), 'B:' + le32(8)] + ['B:' + le32(rng.below(L)) for _ in range(6 if not thorough else 20)]
    for p in base_pts:
        for q in base_pts[:4] + [rng.choice(base_pts), p]:
            for op in ops:
                yield 'ge_chain %s %s %s #chain' % (p, q, op)
    for p in dpts:
        for op in ('rt', 'dbl', 'add'):
            yield 'ge_chain %s %s %s #chain-decoded' % (p, 'B:' + le32(3), op)
    # ---- programs over full points: every operation's result is used again as an operand (so a coordinate that the encoder never
    # reads - T - must be right too); owned-operand operator impls; GePrecomp::ZERO; results compared register by register
    unary = ['dbl', 'dbp', 'dpf', 'dpp', 'addz', 'subz', 'subzv']
    binary = ['add', 'sub', 'subv']
    for i in range(400 if thorough else 90):
        ins = [rng.choice(base_pts), rng.choice(base_pts)] if i % 9 else [rng.choice(dpts), rng.choice(base_pts[1:])]
        steps = ['in.' + x for x in ins]
        if i % 5 == 0:
            steps.append('smb.' + le32(rng.below(L)))
        n = len(steps)
        # every unary op is followed (sooner or later) by a binary op that reads its result on either side
        for _ in range(rng.rng(3, 9)):
            if rng.below(3) == 0:
                steps.append('%s.%d' % (rng.choice(unary), rng.below(n))); n += 1
                other = rng.below(n - 1)
                pair = (n - 1, other) if rng.below(2) else (other, n - 1)
                steps.append('%s.%d.%d' % (rng.choice(binary), pair[0], pair[1])); n += 1
            else:
                steps.append('%s.%d.%d' % (rng.choice(binary), rng.below(n), rng.below(n))); n += 1
        yield 'ge_prog %s #prog%s' % (' '.join(steps), '-decoded' if i % 9 == 0 else '')
    for u in unary:
        for b in binary:
            pnt = 'B:' + le32(rng.below(L))
            yield 'ge_prog in.%s in.%s %s.0 %s.2.1 %s.1.2 %s.2.2 %s.2 %s.6.0 #prog-directed' % (pnt, 'B:' + le32(rng.below(L)), u, b, b, b, u, b)
    # ---- decode / encode
    for pt in so:
        for ename, enc in __import__('cxv.props.c14', fromlist=['encodings']).encodings(pt):
            yield 'ge_decode %s #decode-small-order/%s' % (enc.hex(), ename)
    for _ in range(200 if thorough else 40):
        k = rng.below(L)
        yield 'ge_decode %s #decode-random-point' % o.ed_pub_from_scalar(k).hex()
    n = 0
    while n < (100 if thorough else 30):
        y = rng.below(P)
        if o.recover_x(y, 0) is None:
            yield 'ge_decode %s #decode-non-point' % (y | (rng.below(2) << 255)).to_bytes(32, 'little').hex()
            n += 1


# ------------------------------------------------------------------ oracle
def fe_eval(steps):
    regs, eqs = [], []
    for s in steps:
        p = s.split('.')
        if p[0] == 'in':
            regs.append((int.from_bytes(expand(p[1]), 'little') & M255) % P)
        elif p[0] == 'k':
            regs.append({'ZERO': 0, 'ONE': 1, 'SQRTM1': o.SQRTM1, 'D': o.D, 'D2': 2 * o.D % P}[p[1]])
        elif p[0] == 'add':
            regs.append((regs[int(p[1])] + regs[int(p[2])]) % P)
        elif p[0] == 'sub':
            regs.append((regs[int(p[1])] - regs[int(p[2])]) % P)
        elif p[0] == 'neg':
            regs.append((-regs[int(p[1])]) % P)
        elif p[0] == 'mul':
            regs.append(regs[int(p[1])] * regs[int(p[2])] % P)
        elif p[0] == 'sq':
            regs.append(regs[int(p[1])] ** 2 % P)
        elif p[0] == 'sqn':
            regs.append(pow(regs[int(p[1])], 2 ** int(p[2]), P))
        elif p[0] == 'sq2':
            regs.append(2 * regs[int(p[1])] ** 2 % P)
        elif p[0] == 'inv':
            regs.append(pow(regs[int(p[1])], P - 2, P))
        elif p[0] == 'pow':
            regs.append(pow(regs[int(p[1])], (P - 5) // 8, P))
        elif p[0] == 'eq':
            eqs.append('T' if regs[int(p[1])] == regs[int(p[2])] else 'F')
    out = ['%s:%s:%s' % (v.to_bytes(32, 'little').hex(), 'T' if v & 1 else 'F', 'T' if v else 'F') for v in regs]
    return out + eqs


def point_of(spec):
    """returns (affine point or None, decoded_flag)"""
    if spec == 'Z':
        return (0, 1), False
    if spec.startswith('B:'):
        return o.ext_aff(o.ext_mul(int.from_bytes(expand(spec[2:]), 'little'), o.ext(o.B))), False
    return o.ed_decode(expand(spec[2:])), True


def neg(pt):
    return ((-pt[0]) % P, pt[1])


def smul(k, pt):
    return o.ext_mul(k, o.ext(pt))


def precomp(pt):
    x, y = pt
    return [((y + x) % P).to_bytes(32, 'little').hex(), ((y - x) % P).to_bytes(32, 'little').hex(), (2 * o.D * x * y % P).to_bytes(32, 'little').hex()]


def chain_expected(P_, Q_, op):
    E = lambda e: o.ed_encode(o.ext_aff(e)).hex()
    p, q = o.ext(P_), o.ext(Q_)
    if op in ('rt', 'rtp'):
        return E(p)
    if op in ('dbl', 'dblp', 'dblp1', 'pdbl', 'pdblf', 'pdblp1'):
        return E(o.ext_add(p, p))
    if op in ('add', 'addp'):
        return E(o.ext_add(p, q))
    if op in ('sub', 'subv'):
        return E(o.ext_add(p, o.ext(neg(Q_))))
    if op == 'mix':
        return E(q)


def expected(f, flip_decoded=False):
    """expected tokens; flip_decoded evaluates with every D: point negated (the behaviour recorded as known finding F5)"""
    op = f[0]
    def pt(spec):
        a, dec = point_of(spec)
        if a is not None and dec and flip_decoded:
            a = neg(a)
        return a
    if op == 'fe':
        return fe_eval(f[1:])
    if op == 'consts':
        return [le32(0), le32(1), le32(o.SQRTM1), le32(o.D), le32(2 * o.D % P), le32(0), o.ed_encode((0, 1)).hex()]
    if op == 'sc_reduce':
        return [(int.from_bytes(expand(f[1]), 'little') % L).to_bytes(32, 'little').hex()]
    if op == 'sc_muladd':
        a, b, c = (int.from_bytes(expand(x), 'little') for x in f[1:4])
        return [((a * b + c) % L).to_bytes(32, 'little').hex()]
    if op == 'sc_canon':
        v = int.from_bytes(expand(f[1]), 'little')
        return [v.to_bytes(32, 'little').hex() if v < L else 'NONE']
    if op == 'sc_rt':
        return [f[1], 'T' if expand(f[1]) == expand(f[2]) else 'F']
    if op == 'ge_base':
        return [o.ed_encode(o.ext_aff(smul(int.from_bytes(expand(f[1]), 'little'), o.B))).hex()]
    if op == 'ge_dsm':
        A = pt(f[2])
        if A is None:
            return ['NONE']
        a, b = int.from_bytes(expand(f[1]), 'little'), int.from_bytes(expand(f[3]), 'little')
        return [o.ed_encode(o.ext_aff(o.ext_add(smul(a, A), smul(b, o.B)))).hex()]
    if op == 'ge_chain':
        A, Bq = pt(f[1]), pt(f[2])
        if A is None or Bq is None:
            return ['NONE']
        return [chain_expected(A, Bq, f[3])]
    if op == 'ge_prog':
        regs = []
        for st in f[1:]:
            k, _, arg = st.partition('.')
            if k == 'in':
                A = pt(arg)
                if A is None:
                    return ['NONE']
                regs.append(o.ext(A))
            elif k == 'smb':
                regs.append(smul(int.from_bytes(expand(arg), 'little'), o.B))
            else:
                ix = [int(x) for x in arg.split('.')]
                a = regs[ix[0]]
                if k in ('dbl', 'dbp', 'dpf'):
                    regs.append(o.ext_add(a, a))
                elif k == 'dpp':
                    d = o.ext_add(a, a); regs.append(o.ext_add(d, d))
                elif k == 'add':
                    regs.append(o.ext_add(a, regs[ix[1]]))
                elif k in ('sub', 'subv'):
                    regs.append(o.ext_add(a, o.ext(neg(o.ext_aff(regs[ix[1]])))))
                elif k in ('addz', 'subz', 'subzv'):
                    regs.append(a)
                else:
                    raise KeyError(k)
        return [o.ed_encode(o.ext_aff(r)).hex() + ':=' for r in regs]
    if op == 'ge_decode':
        A = pt('D:' + f[1])
        return ['NONE'] if A is None else [o.ed_encode(A).hex()]
    if op == 'ge_table':
        if f[1] == 'base':
            k = (int(f[3]) + 1) * (256 ** int(f[2]))
        else:
            k = 2 * int(f[2]) + 1
        return precomp(o.ext_aff(smul(k, o.B)))
    if op == 'ge_select':
        b = int(f[2])
        if b == 0:
            return [le32(1), le32(1), le32(0)]
        t = o.ext_aff(smul(abs(b) * (256 ** int(f[1])), o.B))
        return precomp(t if b > 0 else neg(t))
    raise KeyError(op)


def uses_decoded(f):
    return any(t.startswith(('D:', 'in.D:')) for t in f[1:]) or f[0] == 'ge_decode'


def check(line, toks):
    body, _, cls = line.partition(' #')
    f = body.split()
    exp = expected(f)
    if toks == exp:
        return []
    if uses_decoded(f) and toks == expected(f, flip_decoded=True):
        return [('C15:ge-from-bytes:negated-point', '%s: result corresponds to the negated decoded point' % cls)]
    i = 0
    while i < min(len(exp), len(toks)) and exp[i] == toks[i]:
        i += 1
    step = ''
    if f[0] == 'fe':
        regsteps = [s for s in f[1:] if not s.startswith('eq.')]
        step = ' (step %s)' % (regsteps[i] if i < len(regsteps) else 'eq #%d' % (i - len(regsteps)))
    return [('C15:%s:mismatch' % (f[0] if f[0] != 'fe' else 'fe'), '%s: output #%d%s expected %s got %s' % (cls, i, step, exp[i] if i < len(exp) else '<none>', toks[i] if i < len(toks) else '<none>'))]


def classify(line):
    body, _, cls = line.partition(' #')
    f = body.split()
    if f[0] == 'fe':
        return (cls, tuple(s.split('.')[0] for s in f[1:])[:60], hash(body) & 0xffff if cls == 'fe-identity' else 0)
    return (cls, body[:200])


def digits16(s):
    es = [(s >> (4 * i)) & 15 for i in range(64)]
    carry = 0
    for i in range(63):
        es[i] += carry
        carry = (es[i] + 8) >> 4
        es[i] -= carry << 4
    es[63] += carry
    return es


def coverage(line, toks):
    body, _, cls = line.partition(' #')
    f = body.split()
    out = [cls.split('/')[0]]
    if f[0] == 'ge_base':
        s = int.from_bytes(expand(f[1]), 'little')
        for i, d in enumerate(digits16(s)):
            if d:
                out.append('base-cell:%d:%d:%s' % (i // 2, abs(d), '+' if d > 0 else '-'))
    elif f[0] == 'ge_table':
        out.append('table:GE_BASE' if f[1] == 'base' else 'table:BI')
    elif f[0] == 'ge_select':
        out.append('select')
    elif f[0] == 'fe':
        for s in f[1:]:
            out.append('fe-op:' + s.split('.')[0])
    return out


def san_subset(lines):
    rng = Rng('C15-san')
    out = []
    for l in lines:
        c = l.partition(' #')[2]
        if c in ('fe-identity', 'fe-edge', 'fe-result-directed') and rng.below(40) == 0:
            out.append(l)
        elif (c in ('sc-reduce', 'sc-canon') or c.startswith('sc-muladd')) and rng.below(60) == 0:
            out.append(l)
        elif c in ('table', 'select') and rng.below(40) == 0:
            out.append(l)
        elif c.startswith(('base-special', 'base-word', 'dsm-special', 'chain', 'decode', 'prog')) and rng.below(60) == 0:
            out.append(l)
    return out[:120]
