"""C02 - hash contexts: any split, clone, reset or reuse gives the one-shot digest (history + sequential model)."""
from ..codec import Rng, expand, spec_len
from .. import oracle as o

ID = 'C02'
RULE = ('(every update piece is handed to the library from byte offset (len + first byte) mod 16 of a 64-byte aligned buffer) one record per operation history on hash contexts (update, update_mut, clone, clone_from, reset, reset_with_key, finalize_reset, '
        'finalize_reset_with_key, finalize); model state per object = (key, bytes since reset); every emitted digest must equal the '
        'reference hash of the model state; exhaustive op sequences to depth 2 (quick) / 3 (thorough) over a 15-symbol alphabet plus '
        'random histories; distinct = (variant, op-kind sequence with chunk-length classes)')
ASSUMPTIONS = ['same reference hashes as C01']
FLOORS = {'evaluations': 8000, 'distinct': 4000}
THOROUGH_ROUNDS = 8   # thorough tier: generator passes with derived seeds (runner.gen_rounds)
EXTRA_CFGS = ['f32']   # the workload is also executed by the force-32bits build of the library; results must not change (runner.standard_check)

FIXED = ['sha1', 'sha224', 'sha256', 'sha384', 'sha512', 'sha512_224', 'sha512_256', 'sha3_224', 'sha3_256', 'sha3_384', 'sha3_512',
         'keccak224', 'keccak256', 'keccak384', 'keccak512', 'ripemd160']


def variants(rng):
    vs = [(v, o.BLOCK[v], False) for v in FIXED]
    for bits in (8, 160, 224, 256, 384, 504, 512, 9, 250, 505):        # incl. sizes that are not whole bytes (digest length = ceil(bits / 8))
        vs.append(('b2bt/%d/-' % bits, 128, True))
        vs.append(('b2bt/%d/%s' % (bits, rng.data(rng.choice([1, 16, 64]))), 128, True))
    for bits in (8, 128, 224, 248, 256, 9, 100, 250):
        vs.append(('b2st/%d/-' % bits, 64, True))
        vs.append(('b2st/%d/%s' % (bits, rng.data(rng.choice([1, 16, 32]))), 64, True))
    for ol in (1, 20, 32, 64):
        vs.append(('b2b/%d/-' % ol, 128, True))
        vs.append(('b2b/%d/%s' % (ol, rng.data(rng.choice([1, 33, 64]))), 128, True))
    for ol in (1, 16, 32):
        vs.append(('b2s/%d/-' % ol, 64, True))
        vs.append(('b2s/%d/%s' % (ol, rng.data(rng.choice([1, 17, 32]))), 64, True))
    return vs


def ref_hash(variant, key, msg):
    p = variant.split('/')
    if p[0] in ('b2bt', 'b2st'):
        n = (int(p[1]) + 7) // 8
        return (o.blake2b if p[0] == 'b2bt' else o.blake2s)(n, key, msg)
    if p[0] in ('b2b', 'b2s'):
        return (o.blake2b if p[0] == 'b2b' else o.blake2s)(int(p[1]), key, msg)
    return o.HASHES[variant](msg)


def initial_key(variant):
    p = variant.split('/')
    return expand(p[2]) if len(p) == 3 else b''


def seq_histories(rng, bs, blake, depth):
    """exhaustive sequences over the alphabet, each ended by finalizing every live object"""
    chunks = [0, 1, bs - 1, bs, bs + 1, 2 * bs + 3]
    alphabet = [('u', c) for c in chunks] + [('m', c) for c in chunks] + [('c', 0), ('r', 0), ('f', 0)]
    if blake:
        alphabet += [('k', 0), ('fk', 0)]
    def rec(prefix, d):
        if d == 0:
            yield prefix
            return
        for a in alphabet:
            yield from rec(prefix + [a], d - 1)
    for d in range(1, depth + 1):
        yield from rec([], d)


def render(rng, seq, maxkey):
    steps = []
    cur = 0
    nobj = 1
    for op, c in seq:
        if op in ('u', 'm'):
            steps.append('%s.%d.%s' % (op, cur, rng.data(c)))
        elif op == 'c':
            steps.append('c.%d.%d' % (cur, nobj)); cur = nobj; nobj += 1
        elif op == 'r':
            steps.append('r.%d' % cur)
        elif op == 'f':
            steps.append('f.%d' % cur)
        elif op == 'k':
            steps.append('k.%d.%s' % (cur, rng.data(rng.choice([0, 1, maxkey // 2, maxkey]))))
        elif op == 'fk':
            steps.append('fk.%d.%s' % (cur, rng.data(rng.choice([0, 1, maxkey]))))
    for i in range(nobj):
        steps.append('F.%d' % i)
    return steps


def random_history(rng, bs, blake, maxkey):
    n = rng.rng(10, 60)
    live = [0]
    nobj = 1
    steps = []
    for _ in range(n):
        r = rng.below(100)
        ob = rng.choice(live)
        if r < 55:
            cls = rng.below(8)
            ln = [0, 1, bs - 1, bs, bs + 1, rng.rng(2, bs - 2), bs * rng.rng(2, 4) + rng.choice([0, 1, bs - 1]), rng.rng(0, 5 * bs)][cls]
            steps.append('%s.%d.%s' % ('u' if rng.below(2) else 'm', ob, rng.data(ln)))
        elif r < 62 and nobj < 5:
            steps.append('c.%d.%d' % (ob, nobj)); live.append(nobj); nobj += 1
        elif r < 65 and len(live) > 1:
            src = rng.choice([x for x in live if x != ob])
            steps.append('cf.%d.%d' % (ob, src))      # ob.clone_from(&src)
        elif r < 75:
            steps.append('r.%d' % ob)
        elif r < 88:
            steps.append('f.%d' % ob)
        elif blake and r < 94:
            steps.append('k.%d.%s' % (ob, rng.data(rng.choice([0, 1, maxkey // 2, maxkey]))))
        elif blake:
            steps.append('fk.%d.%s' % (ob, rng.data(rng.choice([0, 1, maxkey]))))
        else:
            steps.append('f.%d' % ob)
    for i in live:
        steps.append('F.%d' % i)
    return steps


def gen(tier, seed):
    rng = Rng('C02', seed)
    thorough = tier == 'thorough'
    for v, bs, blake in variants(rng):
        maxkey = (64 if v.startswith('b2b') else 32) if blake else 0
        full_depth = 3 if thorough else 2
        for seq in seq_histories(rng, bs, blake, full_depth):
            yield 'hh %s %s' % (v, ' '.join(render(rng, seq, maxkey)))
        if not thorough:
            # sampled depth-3 sequences
            alph_n = 17 if blake else 15
            all3 = list(seq_histories(rng, bs, blake, 3))[alph_n + alph_n * alph_n:]
            for _ in range(120):
                yield 'hh %s %s' % (v, ' '.join(render(rng, rng.choice(all3), maxkey)))
        for _ in range(1500 if thorough else 60):
            yield 'hh %s %s' % (v, ' '.join(random_history(rng, bs, blake, maxkey)))
    # reuse of a BLAKE2 context whose byte counter has passed a word boundary (preset through the hook: 2^32 / 2^64 / 2^128 bytes cannot be
    # fed): reset, reset_with_key, finalize_reset, finalize_reset_with_key and clone-then-reset must all start from counter 0
    from .c20 import counter_cases
    for l in counter_cases(rng, thorough):
        if '-reuse-' in l:
            yield l


def model(line):
    """returns (expected tokens, coverage keys)"""
    f = line.split()
    variant = f[1]
    fam = variant.split('/')[0]
    bs = o.BLOCK.get(variant) or (128 if fam.startswith('b2b') else 64)
    key0 = initial_key(variant)
    objs = {0: [key0, b'']}
    out = []
    cov = []
    blake = '/' in variant
    for s in f[2:]:
        p = s.split('.')
        ob = int(p[1])
        st = objs[ob]
        if p[0] in ('u', 'm'):
            d = expand(p[2])
            # coverage: buffer regime before/after
            absorbed = len(st[1]) + (bs if (blake and st[0]) else 0)
            if blake:
                # BLAKE2 keeps a full block buffered: fill in 1..bs once anything was absorbed
                fill = 0 if absorbed == 0 else ((absorbed - 1) % bs) + 1
            else:
                fill = absorbed % bs
            ln = len(d)
            if ln == 0:
                regime = 'empty'
            elif blake:
                regime = 'stash' if fill + ln <= bs else ('flush' if fill + ln <= 2 * bs else 'flush+direct')
            else:
                if fill + ln < bs:
                    regime = 'stash'
                elif fill > 0:
                    regime = 'topup' if ln - (bs - fill) < bs else 'topup+direct'
                else:
                    regime = 'direct'
            fc = '0' if fill == 0 else ('full' if fill == bs else 'partial')
            tail = 'tail0' if (fill + ln) % bs == 0 else 'tail'
            cov.append('%s:%s:fill=%s:%s:%s' % ('blake2' if blake else ('sponge' if fam.startswith(('sha3', 'keccak')) else 'md'), p[0], fc, regime, tail))
            st[1] += d
        elif p[0] == 'c':
            objs[int(p[2])] = [st[0], st[1]]
            cov.append('clone')
        elif p[0] == 'cf':
            src = objs[int(p[2])]
            objs[ob] = [src[0], src[1]]
            cov.append('clone_from')
        elif p[0] == 'r':
            st[0] = b''; st[1] = b''
            cov.append('reset')
        elif p[0] == 'k':
            st[0] = expand(p[2]); st[1] = b''
            cov.append('reset_with_key')
        elif p[0] == 'f':
            out.append(ref_hash(variant, st[0], st[1]).hex())
            st[0] = b''; st[1] = b''
            cov.append('finalize_reset')
        elif p[0] == 'fk':
            out.append(ref_hash(variant, st[0], st[1]).hex())
            st[0] = expand(p[2]); st[1] = b''
            cov.append('finalize_reset_with_key')
        elif p[0] == 'F':
            out.append(ref_hash(variant, st[0], st[1]).hex())
            del objs[ob]
    return out, cov


def check(line, toks):
    if ' #counter/' in line:
        from .c20 import check_counter
        return [('C02:%s:reuse-after-counter-wrap' % line.split()[1].split('/')[0], m) for _s, m in check_counter(line, toks)]
    exp, _ = model(line)
    if toks != exp:
        # locate first differing output
        i = 0
        while i < min(len(exp), len(toks)) and exp[i] == toks[i]:
            i += 1
        fam = line.split()[1].split('/')[0]
        return [('C02:%s:history-digest-mismatch' % fam, 'output #%d: expected %s got %s (of %d outputs)' % (
            i, exp[i] if i < len(exp) else '<none>', toks[i] if i < len(toks) else '<none>', len(exp)))]
    return []


def shape(line):
    f = line.split()
    def cls(s):
        p = s.split('.')
        if p[0] in ('u', 'm'):
            return p[0] + str(spec_len(p[2]))
        return p[0]
    return (f[1].split('/')[0] + '/' + (f[1].split('/')[1] if '/' in f[1] else ''), tuple(cls(s) for s in f[2:]))


def classify(line):
    if ' #counter/' in line:
        return ('counter-reuse', line.partition(' #')[2], shape(line.partition(' #')[0])[1])
    return shape(line)


def coverage(line, toks):
    if ' #counter/' in line:
        return ['reuse-after-counter-wrap:' + line.partition(' #counter/')[2].split('/')[0]]
    return model(line)[1]


def san_subset(lines):
    rng = Rng('C02-san')
    out = [l for l in lines if rng.below(40) == 0]
    return out[:400]
