"""C07 - AEAD decryption accepts a message only if its tag is the correct one."""
import struct
from ..codec import Rng, expand, spec_len
from ..aeadmodel import check_aead, tag_of
from .. import oracle as o

ID = 'C07'
RULE = ('one record per decrypt attempt (one-shot and incremental with 2 partitions); verdict must be true iff the supplied tag equals the '
        'RFC 8439 tag of the inputs as submitted (incremental deliveries include a short misaligning piece followed by 16-byte-multiple pieces; the Tag object of the caller is kept at byte offsets 0..31 of an aligned record); tuples include ciphertexts solved so that the Poly1305 accumulator hits carry-rippling patterns (valid tag and tag +- 2^k); from each valid tuple: all 128 single-bit tag flips, multi-byte tag changes whose XOR cancels, '
        'complemented tag, sampled bit flips in ciphertext / AAD / nonce / key, truncation and extension, bytes moved across the AAD|ciphertext '
        'boundary, swapped lengths, foreign tag, zero tag, and the unmodified tuple; distinct = (interface, mutation kind, position)')
ASSUMPTIONS = ['AEAD model of C06']
FLOORS = {'evaluations': 4000, 'distinct': 600, 'coverage': {'accept': 12, 'reject': 3000}}
THOROUGH_ROUNDS = 100   # thorough tier: generator passes with derived seeds (runner.gen_rounds)
EXTRA_CFGS = ['f32']   # the workload is also executed by the force-32bits build of the library; results must not change (runner.standard_check)


TAG_OFFSETS = [0, 1, 2, 3, 4, 5, 6, 7, 8, 9, 10, 11, 12, 13, 14, 15, 16, 17, 20, 24, 31]   # compiled into the driver (harness/src/aead.rs finalize_at)


def dec_lines(rng, rounds, key, nonce, aad, ct, tag, kind):
    k, nn = key.hex(), nonce.hex()
    hx = lambda b: b.hex() or '-'
    yield 'aead_dec %d %s %s %s %s %s #%s' % (rounds, k, nn, hx(aad), hx(ct), tag.hex(), kind)
    # incremental, data delivered via decrypt and decrypt_mut in two pieces
    c1 = rng.rng(0, len(ct)); a1 = rng.rng(0, len(aad))
    # the caller's Tag object lives at a varying byte offset (Tag has alignment 1; the verdict must not depend on where it is kept)
    yield 'aead_inc %d %s %s a.%s a.%s D %s.%s %s.%s fin.%s.%d #%s' % (
        rounds, k, nn, hx(aad[:a1]), hx(aad[a1:]), rng.choice(['d', 'dm']), hx(ct[:c1]), rng.choice(['d', 'dm']), hx(ct[c1:]), tag.hex(), rng.choice(TAG_OFFSETS), kind)
    if kind in ('valid', 'valid-directed-accumulator', 'tag-zero', 'tag-last-byte') or kind.startswith(('ct-bit', 'aad-bit')):
        # a short piece that leaves the MAC input misaligned, followed by pieces whose length is a multiple of 16
        a1 = min(len(aad), rng.choice([1, 4, 7])); a2 = a1 + 16 * ((len(aad) - a1) // 16)
        c1 = min(len(ct), rng.choice([2, 5, 15])); c2 = c1 + 16 * ((len(ct) - c1) // 16)
        yield 'aead_inc %d %s %s a.%s a.%s a.%s D %s.%s %s.%s %s.%s fin.%s #%s' % (
            rounds, k, nn, hx(aad[:a1]), hx(aad[a1:a2]), hx(aad[a2:]), rng.choice(['d', 'dm']), hx(ct[:c1]), rng.choice(['d', 'dm']), hx(ct[c1:c2]), rng.choice(['d', 'dm']), hx(ct[c2:]), tag.hex(), kind)


def flip(b, bit):
    x = bytearray(b); x[bit // 8] ^= 1 << (bit % 8); return bytes(x)


def gen(tier, seed):
    rng = Rng('C07', seed)
    thorough = tier == 'thorough'
    ntuples = 40 if thorough else 10
    tuples = []
    for i in range(ntuples):
        kl = rng.choice([16, 32])
        key, nonce = rng.bytes(kl), rng.bytes(12)
        aad = rng.bytes(rng.choice([0, 1, 15, 16, 17, 33, 64]))
        pt = rng.bytes(rng.choice([1, 15, 16, 17, 64, 65, 130]) if i else 48)
        rounds = 20 if i % 5 else rng.choice([8, 12])
        ct, tag = o.aead_encrypt(key, nonce, aad, pt, rounds)
        tuples.append((rounds, key, nonce, aad, ct, tag))
    # tuples whose Poly1305 accumulator sits on carry-rippling / extreme limb patterns (valid tag must be accepted, neighbours rejected)
    from ..polytargets import accumulator_targets, solve_last_block, absorb
    CL = 0x0ffffffc0ffffffc0ffffffc0fffffff
    for _ in range(12 if thorough else 4):
        key, nonce = rng.bytes(32), rng.bytes(12)
        otk = o.chacha_ietf_block(key, nonce, 0)[:32]
        r = int.from_bytes(otk[:16], 'little') & CL; sv = int.from_bytes(otk[16:], 'little')
        if r == 0:
            continue
        for T in accumulator_targets(rng, r, sv, 40 if thorough else 24):
            for _try in range(12):
                aad = rng.bytes(rng.choice([0, 7, 16]))
                pre = rng.bytes(16 * rng.rng(0, 2))
                acc = absorb(r, absorb(r, 0, aad + o.pad16(aad)), pre)
                lenblk = int.from_bytes(struct.pack('<QQ', len(aad), len(pre) + 16) + b'\x01', 'little')
                last = solve_last_block(r, acc, T, after=(lenblk,))
                if last is None:
                    continue
                ct = pre + last
                tag = tag_of(20, key, nonce, aad, ct)
                yield from dec_lines(rng, 20, key, nonce, aad, ct, tag, 'valid-directed-accumulator')
                for delta in (1 << 64, 1 << 96, 1 << 32, 1):
                    for sgn in (1, -1):
                        t2 = ((int.from_bytes(tag, 'little') + sgn * delta) % (1 << 128)).to_bytes(16, 'little')
                        yield from dec_lines(rng, 20, key, nonce, aad, ct, t2, 'tag-plus-minus-2^k')
                break
    # every placement of the caller's Tag: the right tag is accepted, a tag differing in one byte (each byte in turn) is refused
    rounds, key, nonce, aad, ct, tag = tuples[0]
    for off in TAG_OFFSETS:
        hx = lambda b: b.hex() or '-'
        yield 'aead_inc %d %s %s a.%s D d.%s fin.%s.%d #tag-placed-valid/%d' % (rounds, key.hex(), nonce.hex(), hx(aad), hx(ct), tag.hex(), off, off)
        for pos in range(16):
            t = bytearray(tag); t[pos] ^= 1 << rng.below(8)
            yield 'aead_inc %d %s %s a.%s D d.%s fin.%s.%d #tag-placed-onebyte/%d' % (rounds, key.hex(), nonce.hex(), hx(aad), hx(ct), bytes(t).hex(), off, off)
    for ti, (rounds, key, nonce, aad, ct, tag) in enumerate(tuples):
        D = lambda *a: dec_lines(rng, rounds, *a)
        yield from D(key, nonce, aad, ct, tag, 'valid')
        for bit in range(128):
            yield from D(key, nonce, aad, ct, flip(tag, bit), 'tag-bit/%d' % bit)
        # tag differences that cancel under XOR / sum, complement, byte swaps
        for _ in range(16):
            i, j = rng.below(16), rng.below(16)
            if i == j:
                continue
            v = rng.rng(1, 255)
            t = bytearray(tag); t[i] ^= v; t[j] ^= v
            yield from D(key, nonce, aad, ct, bytes(t), 'tag-2bytes-same-xor')
            t = bytearray(tag); t[i] = (t[i] + v) & 255; t[j] = (t[j] - v) & 255
            if bytes(t) != tag:
                yield from D(key, nonce, aad, ct, bytes(t), 'tag-2bytes-sum-preserving')
        yield from D(key, nonce, aad, ct, bytes(b ^ 0xff for b in tag), 'tag-complement')
        yield from D(key, nonce, aad, ct, tag[::-1], 'tag-reversed') if tag[::-1] != tag else ()
        yield from D(key, nonce, aad, ct, tag[1:] + tag[:1], 'tag-rotated') if tag[1:] + tag[:1] != tag else ()
        yield from D(key, nonce, aad, ct, tag[:15] + bytes([tag[15] ^ 0x80]), 'tag-last-byte')
        yield from D(key, nonce, aad, ct, bytes(16), 'tag-zero')
        yield from D(key, nonce, aad, ct, tuples[(ti + 1) % len(tuples)][5], 'tag-foreign')
        nb = 64 if thorough else 24
        for _ in range(nb):
            if ct:
                yield from D(key, nonce, aad, flip(ct, rng.below(8 * len(ct))), tag, 'ct-bit')
            if aad:
                yield from D(key, nonce, flip(aad, rng.below(8 * len(aad))), ct, tag, 'aad-bit')
            yield from D(key, flip(nonce, rng.below(96)), aad, ct, tag, 'nonce-bit')
            yield from D(flip(key, rng.below(8 * len(key))), nonce, aad, ct, tag, 'key-bit')
        for n in (1, 16):
            if len(ct) >= n:
                yield from D(key, nonce, aad, ct[:-n], tag, 'ct-truncated/%d' % n)
            yield from D(key, nonce, aad, ct + bytes(n), tag, 'ct-extended/%d' % n)
            if len(aad) >= n:
                yield from D(key, nonce, aad[:-n], ct, tag, 'aad-truncated/%d' % n)
            yield from D(key, nonce, aad + bytes(n), ct, tag, 'aad-extended/%d' % n)
        both = aad + ct
        for kmove in (1, 2, 15, 16, 17):
            if len(aad) >= kmove:
                yield from D(key, nonce, both[:len(aad) - kmove], both[len(aad) - kmove:], tag, 'boundary-moved-left/%d' % kmove)
            if len(ct) >= kmove:
                yield from D(key, nonce, both[:len(aad) + kmove], both[len(aad) + kmove:], tag, 'boundary-moved-right/%d' % kmove)
        if len(aad) != len(ct):
            yield from D(key, nonce, both[:len(ct)], both[len(ct):], tag, 'lengths-swapped')
        # 16 <-> 32 byte key confusion: a 16-byte key must not behave like the same key doubled / zero-extended
        if len(key) == 16:
            yield from D(key + key, nonce, aad, ct, tag, 'key-doubled')
        else:
            yield from D(key[:16], nonce, aad, ct, tag, 'key-halved')


def check(line, toks):
    body = line.split(' #')[0]
    return [('C07:%s' % k, m) for k, m in check_aead(body, toks)]


def classify(line):
    body, _, kind = line.partition(' #')
    f = body.split()
    return (f[0], kind, spec_len(f[2]))


def coverage(line, toks):
    t = toks[-1] if toks else None
    kind = line.partition(' #')[2].split('/')[0]
    return ['accept' if t == 'T' else 'reject', 'kind:' + kind]


def san_subset(lines):
    rng = Rng('C07-san')
    return [l for l in lines if rng.below(60) == 0][:150]
