"""C05 - Poly1305 returns the specified tag for every key and message."""
from ..codec import Rng, expand, spec_len
from ..macmodel import check_history
from .. import oracle as o

ID = 'C05'
RULE = ('one record per (key, message, chunking): tag must equal the RFC 8439 big-integer formula; keys: random, all-ones, small/clamp-'
        'edge r, s all-ones; messages: every length 0..=80, structured block sequences over {00,ff,fe..,01..} (all sequences to length 4) '
        'for small r, directed final blocks that make the accumulator land on 0..9 and p-5..p-1, random up to 4 KiB; chunkings: whole, '
        'bytes, 5, 15/16/17 mixes, random; distinct = (key class, message length, message class, chunking class)')
ASSUMPTIONS = ['big-int Poly1305 model pinned by RFC 8439 2.5.2, A.3 vectors and openssl mac poly1305']
FLOORS = {'evaluations': 12000, 'distinct': 3000}
THOROUGH_ROUNDS = 30   # thorough tier: generator passes with derived seeds (runner.gen_rounds)
EXTRA_CFGS = ['f32']   # the workload is also executed by the force-32bits build of the library; results must not change (runner.standard_check)
# bulk phase (cxv/bulk.py): random and 00/ff-run keys and messages of 0..96 bytes in two input calls; every call is recomputed by the big-integer model
BULK = {'quick': [('poly1305', 1 << 20, 1 << 14), ('poly1305x', 1 << 20, 1 << 14)], 'thorough': [('poly1305', 1 << 23, 1 << 16), ('poly1305x', 1 << 24, 1 << 16)]}   # poly1305x: near-maximal r and message limbs, 2..6 blocks in ONE input call
BULK_SECOND_BACKEND = False
P = (1 << 130) - 5
CLAMP = 0x0ffffffc0ffffffc0ffffffc0fffffff


def rkey(r, s):
    return (r.to_bytes(16, 'little') + s.to_bytes(16, 'little')).hex()


def chunkings(rng, n):
    yield 'whole', [n]
    if n > 1:
        yield 'bytes', [1] * n
        yield 'five', [5] * (n // 5) + ([n % 5] if n % 5 else [])
    if n > 17:
        # leave a partial block buffered and then deliver a piece that does / does not complete it
        for name, pat in (('15-16-17', [15, 16, 17]), ('7-long', [7, 40]), ('1-15-1', [1, 15, 1, 16]), ('17-1', [17, 1])):
            out, left, i = [], n, 0
            while left > 0:
                c = min(left, pat[i % len(pat)]); out.append(c); left -= c; i += 1
            yield name, out
    for _ in range(2):
        out, left = [], n
        while left > 0:
            c = min(left, rng.choice([0, 1, 2, 15, 16, 17, 31, 32, 33, rng.rng(1, 70)])); out.append(c); left -= c
        yield 'random', out


def emit(rng, keyhex, kc, msg, mc, chunking=None):
    n = len(msg)
    cs = list(chunkings(rng, n)) if chunking is None else chunking
    for cname, parts in cs:
        steps, a = [], 0
        for c in parts:
            steps.append('i.0.%s' % (msg[a:a + c].hex() or '-')); a += c
        fin = 'r.0' if rng.below(3) else 'rr.0.%d' % rng.choice([16, 16, 16, 17, 24, 32, 64])      # raw_result documents "at least 16 bytes"
        yield 'mac poly1305 %s %s %s #%s/%s/%s' % (keyhex, ' '.join(steps), fin, kc, mc, cname)


def gen(tier, seed):
    rng = Rng('C05', seed)
    thorough = tier == 'thorough'
    ones = (1 << 128) - 1
    keys = [('rnd', rng.bytes(32).hex()), ('rnd', rng.bytes(32).hex()), ('all-ones', 'ff' * 32), ('r0', rkey(0, rng.below(1 << 128))),
            ('r1', rkey(1, rng.below(1 << 128))), ('r2', rkey(2, 0)), ('s-ones', rng.bytes(16).hex() + 'ff' * 16),
            ('unclamped', 'ff' * 16 + rng.bytes(16).hex()), ('rmax', rkey(CLAMP, ones))]
    # every clamped bit set individually in the raw key
    for bit in (28, 29, 30, 31, 32, 33, 60, 61, 62, 63, 64, 65, 92, 93, 94, 95, 96, 97, 124, 125, 126, 127):
        keys.append(('clampbit', rkey(1 << bit | 3, rng.below(1 << 128))))
    for kc, k in keys:
        for n in range(0, 81):
            msg = rng.bytes(n)
            full = kc in ('rnd', 'all-ones', 'r1', 'unclamped') or n in (0, 15, 16, 17, 32, 33, 64)
            yield from emit(rng, k, kc, msg, 'rnd', None if full else [('whole', [n])])
    # structured block sequences for small r
    blocks = [bytes(16), b'\xff' * 16, b'\xfb' + b'\xfe' * 15, b'\x01' + bytes(15), b'\xf0' + b'\xff' * 15]
    rs = [0, 1, 2, 3, 4, 5, 8, 1 << 34, CLAMP, 0x0ffffffc, 1 << 100]
    for r in rs:
        for s in (0, ones):
            k = rkey(r, s)
            def rec(prefix, d):
                if prefix:
                    yield prefix
                if d:
                    for b in blocks:
                        yield from rec(prefix + [b], d - 1)
            for seq in rec([], 4 if (thorough or r in (1, 2)) else 3):
                msg = b''.join(seq)
                yield from emit(rng, k, 'small-r', msg, 'structured', [('whole', [len(msg)])])
                if rng.below(8) == 0:
                    tail = rng.bytes(rng.rng(1, 15))
                    yield from emit(rng, k, 'small-r', msg + tail, 'structured+tail', [('whole', [len(msg) + len(tail)])])
    # directed accumulator targets
    targets = list(range(0, 10)) + [P - i for i in range(1, 6)]
    for _ in range(40 if thorough else 8):
        for rcls in ('r1', 'r2', 'rnd'):
            r = {'r1': 1, 'r2': 2}.get(rcls) or (int.from_bytes(rng.bytes(16), 'little') & CLAMP)
            if r == 0:
                continue
            s = rng.below(1 << 128)
            k = rkey(r, s)
            rinv = pow(r, P - 2, P)
            for t in targets:
                for lastlen in (16, 15):
                    for _try in range(4000):
                        pre = rng.bytes(16 * rng.rng(0, 3))
                        acc = 0
                        for i in range(0, len(pre), 16):
                            acc = (acc + int.from_bytes(pre[i:i + 16] + b'\x01', 'little')) * r % P
                        m = (t * rinv - acc) % P
                        hib = 1 << (8 * lastlen)
                        if hib <= m < 2 * hib:
                            last = (m - hib).to_bytes(lastlen, 'little')
                            msg = pre + last
                            assert (int.from_bytes(o.poly1305(bytes.fromhex(k), msg), 'little') - s) % (1 << 128) == t % (1 << 128)
                            yield from emit(rng, k, rcls, msg, 'directed-acc-%s' % ('low' if t < 10 else 'p-k'), [('whole', [len(msg)]), ('bytes', [1] * len(msg))])
                            break
    # accumulator values with extreme 26-bit limb patterns (all-ones limbs make the carries of the final reduction ripple)
    pats = [0, 1, 2, 0x3ffffff, 0x3fffffe, 0x3fffffb, 0x2000000]
    for rcls in ('r1', 'r2', 'rnd', 'rnd', 'rmax'):
        r = {'r1': 1, 'r2': 2, 'rmax': CLAMP}.get(rcls) or (int.from_bytes(rng.bytes(16), 'little') & CLAMP)
        if r == 0:
            continue
        rinv = pow(r, P - 2, P)
        for _ in range(4000 if thorough else 500):
            t = 0
            for i in range(5):
                c = rng.below(9)
                limb = rng.below(1 << 26) if c >= 7 else pats[c]
                t |= limb << (26 * i)
            t %= P
            s_ = rng.choice([0, ones, rng.below(1 << 128)])
            k = rkey(r, s_)
            for _try in range(40):
                pre = rng.bytes(16 * rng.rng(0, 3))
                acc = 0
                for i in range(0, len(pre), 16):
                    acc = (acc + int.from_bytes(pre[i:i + 16] + b'\x01', 'little')) * r % P
                m = (t * rinv - acc) % P
                if (1 << 128) <= m < (2 << 128):
                    msg = pre + (m - (1 << 128)).to_bytes(16, 'little')
                    yield from emit(rng, k, rcls, msg, 'directed-limb-pattern', [('whole', [len(msg)])])
                    break
    # final addition of s: word sums of exactly 0xffffffff with a carry coming in from below, and tags of special shape
    for _ in range(600 if thorough else 120):
        rr = int.from_bytes(rng.bytes(16), 'little') & CLAMP
        msg = rng.bytes(rng.choice([1, 16, 17, 32, 37, 64]))
        acc = 0
        for i in range(0, len(msg), 16):
            acc = (acc + int.from_bytes(msg[i:i + 16] + b'\x01', 'little')) * rr % P
        h = acc & ones
        hw = [(h >> (32 * i)) & 0xffffffff for i in range(4)]
        variants = []
        w = [(-hw[0]) & 0xffffffff, 0xffffffff - hw[1], 0xffffffff - hw[2], rng.below(1 << 32)]       # carry ripples through words 1 and 2
        variants.append(w)
        variants.append([(-hw[0]) & 0xffffffff, 0xffffffff - hw[1], rng.below(1 << 32), rng.below(1 << 32)])
        variants.append([rng.below(1 << 32), (-hw[1]) & 0xffffffff, 0xffffffff - hw[2], 0xffffffff - hw[3]])
        variants.append([(-hw[0]) & 0xffffffff, 0xffffffff - hw[1], 0xffffffff - hw[2], 0xffffffff - hw[3]])  # tag = 0 with carry out
        for tgt in (0, 1, ones, 1 << 32, 1 << 64, 1 << 96, (1 << 64) - 1):
            sv = (tgt - h) & ones
            variants.append([(sv >> (32 * i)) & 0xffffffff for i in range(4)])
        for w in variants:
            sv = sum(x << (32 * i) for i, x in enumerate(w))
            yield from emit(rng, rkey(rr, sv), 'pad-carry', msg, 'directed-pad-carry', [('whole', [len(msg)])])
    # RFC 8439 A.3 vectors (wrap-around cases), as published
    A3 = [('00' * 32, '00' * 64), ('02' + '00' * 31, 'ff' * 16), ('02' + '00' * 15 + 'ff' * 16, '02' + '00' * 15),
          ('01' + '00' * 31, 'ff' * 16 + 'f0' + 'ff' * 15 + '11' + '00' * 15), ('01' + '00' * 31, 'ff' * 16 + 'fb' + 'fe' * 15 + '01' * 16),
          ('02' + '00' * 31, 'fd' + 'ff' * 15), ('01' + '00' * 7 + '04' + '00' * 23, 'e33594d7505e43b9' + '00' * 8 + '3394d7505e4379cd01' + '00' * 23 + '01' + '00' * 15),
          ('01' + '00' * 7 + '04' + '00' * 23, 'e33594d7505e43b9' + '00' * 8 + '3394d7505e4379cd01' + '00' * 7)]
    for kk, mm in A3:
        yield from emit(rng, kk, 'rfc-a3', bytes.fromhex(mm), 'rfc-a3')
    # random long messages
    for _ in range(300 if thorough else 30):
        n = rng.rng(81, 4096)
        yield from emit(rng, rng.bytes(32).hex(), 'rnd', rng.bytes(n), 'long', [('whole', [n]), next(c for c in chunkings(rng, n) if c[0] == 'random')])


def check(line, toks):
    body = line.split(' #')[0]
    viol, _ = check_history(body, toks)
    return [('C05:poly1305:%s' % k, m) for k, m in viol]


def classify(line):
    body, _, cls = line.partition(' #')
    f = body.split()
    n = sum(spec_len(s.split('.')[2]) for s in f[3:] if s.startswith('i.'))
    return (cls, n, f[-1].split('.')[0])


def coverage(line, toks):
    return [line.partition(' #')[2].rsplit('/', 1)[0]]


def san_subset(lines):
    rng = Rng('C05-san')
    return [l for l in lines if rng.below(60) == 0][:250]
