"""C08 - HMAC equals RFC 2104 for every supported digest, key and message."""
from ..codec import Rng, expand, spec_len
from ..macmodel import check_history
from .. import oracle as o

ID = 'C08'
RULE = ('(every input() piece is handed to the library from byte offset (len + first byte) mod 16 of a 64-byte aligned buffer) one record per (digest, key, message, chunking): Hmac over every legacy Digest type (18 algorithms, BLAKE2 at several output sizes); '
        'key lengths 0,1,bs-1,bs,bs+1,2bs+3,random, every length 0..300, and structured keys (all-zero, zero tail / zero head across the block size, pad-byte and all-ones fills); result must equal H((K^opad)||H((K^ipad)||m)) and output_bytes the digest size; '
        'three messages of 2^29 - 64 + k bytes (the inner hash length field passes 2^32 bits); distinct = (digest, key length class, message length, chunking)')
ASSUMPTIONS = ['python hmac construction over hashlib / pure Keccak; block size of SHA-3/Keccak = sponge rate']
FLOORS = {'evaluations': 2000, 'distinct': 1500}
THOROUGH_ROUNDS = 150   # thorough tier: generator passes with derived seeds (runner.gen_rounds)
EXTRA_CFGS = ['f32']   # the workload is also executed by the force-32bits build of the library; results must not change (runner.standard_check)
DIGESTS = ['sha1', 'sha224', 'sha256', 'sha384', 'sha512', 'sha512_224', 'sha512_256', 'sha3_224', 'sha3_256', 'sha3_384', 'sha3_512',
           'keccak224', 'keccak256', 'keccak384', 'keccak512', 'ripemd160', 'blake2b:64', 'blake2b:32', 'blake2b:20', 'blake2b:1',
           'blake2s:32', 'blake2s:16', 'blake2s:5']


def gen(tier, seed):
    rng = Rng('C08', seed)
    thorough = tier == 'thorough'
    for d in DIGESTS:
        _, bs, ol = o.digest_fn(d)
        keylens = [0, 1, bs - 1, bs, bs + 1, 2 * bs + 3, rng.rng(2, bs - 2), rng.rng(bs + 2, 3 * bs)]
        for kl in keylens:
            kcls = {0: '0', 1: '1', bs - 1: 'bs-1', bs: 'bs', bs + 1: 'bs+1', 2 * bs + 3: '2bs+3'}.get(kl, 'rnd<bs' if kl < bs else 'rnd>bs')
            key = rng.data(kl)
            msgs = [0, 1, bs - 1, bs, bs + 1, rng.rng(2, 3 * bs)] + ([rng.rng(0, 2000) for _ in range(6)] if thorough else [])
            for ml in msgs:
                m = rng.bytes(ml)
                styles = ['whole', 'random'] + (['bytes'] if ml <= 200 and kcls in ('bs', 'bs+1', 'rnd<bs') else [])
                for style in styles:
                    if style == 'whole':
                        cuts = [0, ml]
                    elif style == 'bytes':
                        cuts = list(range(ml + 1)) if ml else [0, 0]
                    else:
                        cuts = sorted(set([0, ml] + [rng.rng(0, ml) for _ in range(rng.rng(1, 5))]))
                        if len(cuts) == 1:
                            cuts = [0, 0]
                    steps = ['i.0.%s' % (m[a:b].hex() or '-') for a, b in zip(cuts, cuts[1:])]
                    fin = rng.choice(['r.0', 'rr.0.%d' % ol])
                    yield 'mac hmac:%s %s ob.0 %s %s #k=%s/%s' % (d, key, ' '.join(steps), fin, kcls, style)
    # every key length and every message length 0..=300 (one call each), for a 64-byte-block and a 128-byte-block hash, a sponge and BLAKE2
    for d in ('sha256', 'sha512', 'sha3_256', 'blake2b:64', 'sha1', 'ripemd160'):
        _, bs, ol = o.digest_fn(d)
        for n in range(0, 301):
            if d in ('sha1', 'ripemd160') and n % 3 != seed % 3:
                continue
            yield 'mac hmac:%s %s ob.0 i.0.%s r.0 #k=sweep/%d' % (d, rng.data(n), rng.data(rng.choice([0, 1, 20, 64, 100])), n)
            yield 'mac hmac:%s %s ob.0 i.0.%s rr.0.%d #m=sweep/%d' % (d, rng.data(rng.choice([1, 16, 32, bs])), rng.data(n), ol, n)
    # structured keys: zero runs at either end (K' is the key zero-padded, so a key with a zero tail must still be hashed when it is longer than a block and must
    # not be confused with its trimmed form), keys equal to the pad bytes (K' xor ipad / opad becomes a zero block), all-ones keys
    for d in DIGESTS:
        _, bs, ol = o.digest_fn(d)
        ks = [('=00:%d' % n, 'zero%+d' % (n - bs)) for n in (1, bs - 1, bs, bs + 1, 2 * bs + 3)]
        for hl, tot in ((5, bs), (5, bs + 1), (bs - 1, bs + 7), (bs, bs + 1), (bs, bs + 30), (bs + 1, 2 * bs), (1, 3 * bs), (rng.rng(1, bs), rng.rng(bs + 1, 2 * bs)), (3, 9)):
            ks.append((rng.bytes(hl).hex() + '00' * (tot - hl), 'ztail%d/%+d' % (hl - bs, tot - bs)))
        for zl, tot in ((bs, bs + 5), (3, bs), (bs - 1, bs + 1), (1, 2 * bs)):
            ks.append(('00' * zl + rng.bytes(tot - zl).hex(), 'zhead%d/%+d' % (zl - bs, tot - bs)))
        for b in ('36', '5c', 'ff'):
            for n in (bs, bs + 1, 7):
                ks.append(('=%s:%d' % (b, n), 'fill%s%+d' % (b, n - bs)))
        for key, kc in ks:
            ml = rng.choice([0, 1, 20, bs, bs + 9])
            yield 'mac hmac:%s %s ob.0 i.0.%s %s #k=struct/%s' % (d, key, rng.data(ml), rng.choice(['r.0', 'rr.0.%d' % ol]), kc)
    yield from huge(rng)      # tagged #huge: only in the first generator pass of a thorough run, and not re-run by C20


def huge(rng):
    # inner hash input = 64-byte padded key block + message: its bit length passes 2^32 from 2^29 - 64 message bytes on
    for d in ('ripemd160', 'sha1', 'sha256'):
        yield 'mac hmac:%s %s ob.0 i.0.%%%d:4093:%d r.0 #huge/k=rnd<bs' % (d, rng.data(20), rng.below(1000), (1 << 29) - 64 + rng.below(100))


def check(line, toks):
    body = line.split(' #')[0]
    viol, _ = check_history(body, toks)
    d = body.split()[1][5:].split(':')[0]
    return [('C08:hmac-%s:%s' % (d, k), m) for k, m in viol]


def classify(line):
    body, _, cls = line.partition(' #')
    f = body.split()
    n = sum(spec_len(s.split('.')[2]) for s in f[3:] if s.startswith('i.'))
    return (f[1], cls, n)


def coverage(line, toks):
    body, _, cls = line.partition(' #')
    return ['%s:%s' % (body.split()[1], cls.split('/')[0])]


def san_subset(lines):
    rng = Rng('C08-san')
    return [l for l in lines if rng.below(40) == 0][:120]
