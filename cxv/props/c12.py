"""C12 - X25519 equals the RFC 7748 function for every scalar and every u-coordinate."""
from ..codec import Rng, expand, spec_len
from .. import oracle as o

ID = 'C12'
RULE = ('one record per (scalar, u) through curve25519 / curve25519_base / x25519::dh / x25519::base (SecretKey and PublicKey built both by From<[u8; 32]> and by TryFrom<&[u8]>, all four combinations); result must equal the RFC 7748 ladder on Python integers; '
        'scalars: random, 0, all-ones, all 256 single-bit scalars, clamp-edge patterns; u: random, 0, 1, 2, 9, p-1, p, every alias p+1..p+18 with and without bit 255, 2^255-20.., 2^255-1, 2^256-1, small-order '
        'values and their bit-255 aliases, 9 / 1 / 0 with each of the 256 bits flipped, random with bit 255 set; base(k) == dh(k, 9); both parties of random exchanges; public keys crafted (inverse scalar on the prime-order subgroup of curve or twist) so that the shared secret is a chosen small / limb-boundary / near-p value; RFC 7748 iteration; '
        'distinct = (entry point, scalar class, u class)')
ASSUMPTIONS = ['bulk phase: the force-32bits backend serves as a second implementation for locating rare disagreements; a disagreement is reported only when the Python model shows the default build wrong, and sampled outputs are always checked against the Python model', 'Python-int Montgomery ladder pinned by RFC 7748 5.2 vectors']
FLOORS = {'evaluations': 1000, 'distinct': 600}
EXTRA_CFGS = ['f32']   # the directed workload is also executed by the force-32bits build (fe32 decoding / ladder are anchors of this property); tokens must equal the default build's, which the model has checked
THOROUGH_ROUNDS = 8   # thorough tier: generator passes with derived seeds (runner.gen_rounds)
# bulk phase (cxv/bulk.py): (kind, calls, block); second implementation = force-32bits backend, the Python model judges every disagreement and the samples
BULK = {'quick': [('x25519', 1 << 16, 1024), ('x25519_base', 1 << 14, 1024)], 'thorough': [('x25519', 1 << 24, 4096), ('x25519_base', 1 << 22, 4096)]}
P = 2 ** 255 - 19
SMALL = [0, 1, 325606250916557431795983626356110631294008115727848805560023387167927233504,
         39382357235489614581723060781553021112529911719440698176882885853963445705823, P - 1, P, P + 1]


A24 = 121665
LT = (1 << 253) - 55484635554744707071703875581767296995     # prime order of the twist's large subgroup (twist order 4*LT)


def raw_ladder(kn, x1):
    """x-coordinate of [kn]Q for x(Q) = x1 with an unclamped scalar (None for the point at infinity); test generation only"""
    x2, z2, x3, z3, swap = 1, 0, x1, 1, 0
    for t in range(kn.bit_length() - 1, -1, -1):
        kt = (kn >> t) & 1
        swap ^= kt
        if swap:
            x2, x3, z2, z3 = x3, x2, z3, z2
        swap = kt
        A = (x2 + z2) % P; AA = A * A % P; B = (x2 - z2) % P; BB = B * B % P
        E = (AA - BB) % P; C = (x3 + z3) % P; D = (x3 - z3) % P
        DA = D * A % P; CB = C * B % P
        x3 = (DA + CB) ** 2 % P; z3 = x1 * (DA - CB) ** 2 % P
        x2 = AA * BB % P; z2 = E * (AA + A24 * E) % P
    if swap:
        x2, x3, z2, z3 = x3, x2, z3, z2
    if z2 == 0:
        return None
    return x2 * pow(z2, P - 2, P) % P


def craft_u(k_bytes, v):
    """a u-coordinate with X25519(k, u) == v, or None when the point with x = v does not have prime order (then k*U can never be it)"""
    kk = bytearray(k_bytes); kk[0] &= 248; kk[31] &= 127; kk[31] |= 64
    kn = int.from_bytes(kk, 'little')
    on_curve = pow((v * v * v + 486662 * v * v + v) % P, (P - 1) // 2, P) == 1
    order = o.L if on_curve else LT
    if v == 0 or raw_ladder(order, v) is not None:
        return None
    return raw_ladder(pow(kn, -1, order), v)


def le(x):
    return (x % (1 << 256)).to_bytes(32, 'little').hex()


def u_values(rng):
    out = []
    for i, v in enumerate(SMALL):
        out.append(('small-order/%d' % i, le(v)))
        out.append(('small-order-bit255/%d' % i, le(v | (1 << 255))))
    # neighbours of the special values at distance 19 / 38 (= what a reduction modulo 2^255 instead of p, or a dropped top bit, turns
    # the aliases p + v and 2p + v into), and everything within 40 of p
    for i, v in enumerate(SMALL):
        for dlt in (-38, -19, 19, 38):
            out.append(('small-order%+d/%d' % (dlt, i), le((v + dlt) % (1 << 255))))
    for d in range(3, 41):
        out.append(('p-d/%d' % d, le(P - d)))
    for d in range(2, 19):       # every non-canonical alias p + d that fits below 2^255, with and without bit 255
        out.append(('p+d/%d' % d, le(P + d)))
        out.append(('p+d-bit255/%d' % d, le((P + d) | (1 << 255))))
    for name, v in (('two', 2), ('nine', 9), ('p-2', P - 2), ('p+2', P + 2), ('2^255-20', 2 ** 255 - 20), ('2^255-1', 2 ** 255 - 1), ('2^255', 2 ** 255),
                    ('2^256-1', 2 ** 256 - 1), ('2^256-19', 2 ** 256 - 19), ('2^51', 2 ** 51), ('2^51-1', 2 ** 51 - 1), ('2^204', 2 ** 204)):
        out.append((name, le(v)))
    for i in range(4):
        out.append(('rnd/%d' % i, rng.bytes(32).hex()))
        b = bytearray(rng.bytes(32)); b[31] |= 0x80
        out.append(('rnd-bit255/%d' % i, bytes(b).hex()))
    return out


def gen(tier, seed):
    rng = Rng('C12', seed)
    thorough = tier == 'thorough'
    us = u_values(rng)
    scalars = [('zero', '00' * 32), ('ones', 'ff' * 32), ('low3', '07' + '00' * 31), ('top', '00' * 31 + 'c0'), ('bit254', '00' * 31 + '40')]
    for i in range(12 if thorough else 4):
        scalars.append(('rnd/%d' % i, rng.bytes(32).hex()))
    for sc, k in scalars:
        for uc, u in us:
            yield 'x25519 %s %s #%s|%s' % (k, u, sc.split('/')[0], uc)
            # the x25519 module, with every combination of the two ways to construct SecretKey / PublicKey
            if uc.split('/')[0] != 'p+d-bit255' or sc in ('ones', 'rnd/0'):
                yield 'x_dhc %s %s %s #%s|%s|module' % (k, u, rng.choice(['aa', 'as', 'sa', 'ss']) if uc.startswith('p+d') else ['aa', 'as', 'sa', 'ss'][(len(uc) + len(sc)) % 4], sc.split('/')[0], uc)
        for cc in ('aa', 'as', 'sa', 'ss'):
            yield 'x_dhc %s %s %s #%s|rnd-cons|module' % (k, rng.bytes(32).hex(), cc, sc.split('/')[0])
            yield 'x_dhc %s %s %s #%s|p+d-cons|module' % (k, le(P + rng.rng(1, 18)), cc, sc.split('/')[0])
        yield 'x25519_base %s #%s|base' % (k, sc.split('/')[0])
        yield 'x_base %s #%s|base' % (k, sc.split('/')[0])
        yield 'x25519 %s %s #%s|nine' % (k, le(9), sc.split('/')[0])
    # the special u values with every single bit flipped in turn (a shortcut that recognises "the base point" / "zero" / "one" must
    # look at all 32 bytes): 9 ^ 2^i, 1 ^ 2^i, 0 ^ 2^i, and (thorough) 2, p-1, p
    kr = rng.bytes(32).hex()
    for name, v in ([('nine', 9), ('one', 1), ('zero', 0)] + ([('two', 2), ('p-1', P - 1), ('p', P)] if thorough else [])):
        for bit in range(256):
            u = le(v ^ (1 << bit))
            yield 'x25519 %s %s #rnd|%s^bit/%d' % (kr, u, name, bit)
            if name == 'nine' and bit % 4 == seed % 4:
                yield 'x_dhc %s %s %s #rnd|%s^bit/%d|module' % (kr, u, ['aa', 'as', 'sa', 'ss'][bit % 4], name, bit)
    # every single-bit scalar
    usub = [u for u in us if u[0].split('/')[0] in ('rnd', 'rnd-bit255', 'nine', '2^255-1')]
    for bit in range(256):
        k = le(1 << bit)
        yield 'x25519_base %s #bit/%d|base' % (k, bit)
        for uc, u in ([rng.choice(usub), rng.choice(us)] if not thorough else usub[:4] + [rng.choice(us)]):
            yield 'x25519 %s %s #bit/%d|%s' % (k, u, bit, uc)
    # random exchanges: both parties
    for i in range(200 if thorough else 40):
        a, b = rng.bytes(32).hex(), rng.bytes(32).hex()
        A = o.x25519(bytes.fromhex(a), (9).to_bytes(32, 'little')).hex()
        B = o.x25519(bytes.fromhex(b), (9).to_bytes(32, 'little')).hex()
        yield 'x_dh %s %s #rnd|exchange' % (a, B)
        yield 'x_dh %s %s #rnd|exchange' % (b, A)
    # result-directed: public keys crafted so that the shared secret is a chosen value with an extreme limb pattern
    # (small integers, values next to 2^k limb boundaries, next to p) - the final field encoding sees its corner cases
    from .c15 import structured_fe, LIMB_EXPS
    cands = list(range(19, 120)) + [(1 << a) + d for a in LIMB_EXPS[1:] for d in (-2, -1, 0, 1, 2, 19)] + [P - d for d in range(1, 60)]
    cands += [(1 << a) - (1 << b) for a in LIMB_EXPS for b in LIMB_EXPS if a > b] + [(1 << a) + (1 << b) for a in LIMB_EXPS for b in LIMB_EXPS if a > b and a < 255]
    rng.shuffle(cands)
    got = 0
    for v in cands + [structured_fe(rng) % P for _ in range(3000)]:
        v %= P
        k = rng.bytes(32)
        u = craft_u(k, v)
        if u is None:
            continue
        assert o.x25519(k, u.to_bytes(32, 'little')) == v.to_bytes(32, 'little')
        yield 'x25519 %s %s #rnd|directed-output' % (k.hex(), u.to_bytes(32, 'little').hex())
        got += 1
        if got >= (1200 if thorough else 220):
            break
    nine = le(9)
    yield 'x25519_iter %s %s 1 #iter|1' % (nine, nine)
    yield 'x25519_iter %s %s %d 500 #iter|n' % (nine, nine, 10000 if thorough else 1000)


def check(line, toks):
    body, _, cls = line.partition(' #')
    f = body.split()
    op = f[0]
    if op == 'x_dhc':
        exp = [o.x25519(expand(f[1]), expand(f[2])).hex(), o.x25519(expand(f[1]), (9).to_bytes(32, 'little')).hex()]
    elif op in ('x25519', 'x_dh'):
        exp = [o.x25519(expand(f[1]), expand(f[2])).hex()]
    elif op in ('x25519_base', 'x_base'):
        exp = [o.x25519(expand(f[1]), (9).to_bytes(32, 'little')).hex()]
    else:
        k, u = expand(f[1]), expand(f[2])
        n = int(f[3]); every = int(f[4]) if len(f) > 4 else 0
        exp = []
        for i in range(1, n + 1):
            r = o.x25519(k, u); u = k; k = r
            if every and i % every == 0 and i != n:
                exp.append(k.hex())
        exp.append(k.hex())
        if n == 1000:
            assert exp[-1] == '684cf59ba83309552800ef566f2f4d3c1c3887c49360e3875f2eb94d99532c51'
    if toks != exp:
        return [('C12:%s:result-mismatch' % op, '%s: expected %s got %s' % (cls, exp[0] if len(exp) == 1 else '<chain>', ' '.join(toks)[:70]))]
    return []


def classify(line):
    body, _, cls = line.partition(' #')
    return (body.split()[0], cls)


def coverage(line, toks):
    cls = line.partition(' #')[2]
    sc, uc = cls.split('|')[:2]
    out = ['scalar:' + sc.split('/')[0], 'u:' + uc.split('/')[0]]
    if line.startswith('x_dhc'):
        out.append('x25519-module:constructors=' + line.split(' #')[0].split()[3])
    return out


def san_subset(lines):
    rng = Rng('C12-san')
    return [l for l in lines if not l.startswith('x25519_iter') and rng.below(200) == 0][:12]
