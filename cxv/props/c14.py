"""C14 - Ed25519 verify accepts exactly the signatures satisfying the equation."""
import hashlib
from ..codec import Rng, expand, spec_len
from .. import oracle as o

ID = 'C14'
RULE = ('one record per verify(message, public key, signature); verdict must equal: key decodes AND key != 0^32 AND S < L AND enc(S*B - H(R|A|M)*A) == R, computed on Python '
        'integers (permissive decoding; for encodings where strict RFC 8032 decoding differs - y >= p, or x = 0 with the sign bit - the crate\'s own decoder verdict is used); '
        'honest pairs, all 512 single-bit signature flips, message/key bit flips, S + kL for all k, small-order and non-canonical keys and R, forged signatures that '
        'satisfy the equation under small-order keys (must be accepted) and under the all-zero key (must be rejected), non-points, random triples; '
        'distinct = (mutation kind, position/parameter)')
ASSUMPTIONS = ['RFC 8032 group arithmetic on Python ints (affine and extended formulas cross-checked in the selftest)']
FLOORS = {'evaluations': 1500, 'distinct': 500, 'coverage': {'accept': 60, 'reject': 1200, 'kind:forgery-small-order-key': 8, 'kind:forgery-zero-key': 2, 'kind:S+kL': 14}}
THOROUGH_ROUNDS = 60   # thorough tier: generator passes with derived seeds (runner.gen_rounds)
P, L = o.P, o.L


def small_order_points():
    """the 8 points of order dividing 8 (affine)"""
    # generate from a point of order 8: take random point Q, multiply by L
    pts = set()
    y = 2
    while len(pts) < 8:
        x = o.recover_x(y % P, 0)
        y += 1
        if x is None:
            continue
        T = o.ext_aff(o.ext_mul(L, o.ext((x, (y - 1) % P))))
        # T has order dividing 8; collect its multiples
        for k in range(8):
            pts.add(o.ext_aff(o.ext_mul(k, o.ext(T))) if k else (0, 1))
    return sorted(pts)


def order_of(pt):
    q = o.ext(pt)
    for n in (1, 2, 4, 8):
        if o.ext_aff(o.ext_mul(n, q)) == (0, 1):
            return n
    raise ValueError


def encodings(pt):
    """canonical encoding and the non-canonical aliases that exist (y + p < 2^255; x == 0 with sign bit)"""
    x, y = pt
    out = [('canonical', o.ed_encode(pt))]
    if y + P < (1 << 255):
        out.append(('y+p', ((y + P) | ((x & 1) << 255)).to_bytes(32, 'little')))
    if x == 0:
        out.append(('x0-sign', (y | (1 << 255)).to_bytes(32, 'little')))
        if y + P < (1 << 255):
            out.append(('y+p-x0-sign', ((y + P) | (1 << 255)).to_bytes(32, 'little')))
    return out


def hram(R, pk, m):
    return int.from_bytes(hashlib.sha512(R + pk + m).digest(), 'little') % L


def forge(rng, pk, A, s):
    """find (R, S=s, M) satisfying enc(s*B - h*A) == R for a small-order A"""
    sB = o.ext_mul(s, o.ext(o.B))
    negA = o.ext(((-A[0]) % P, A[1]))
    n = order_of(A)
    for _ in range(400):
        c = rng.below(n)
        R = o.ed_encode(o.ext_aff(o.ext_add(sB, o.ext_mul(c, negA))))
        m = rng.bytes(rng.rng(0, 40))
        if hram(R, pk, m) % n == c:
            return R + s.to_bytes(32, 'little'), m
    return None


def flip(b, bit):
    x = bytearray(b); x[bit // 8] ^= 1 << (bit % 8); return bytes(x)


def gen(tier, seed):
    rng = Rng('C14', seed)
    thorough = tier == 'thorough'
    V = lambda pk, sig, m, kind: 'ed_verify %s %s %s #%s' % (pk.hex(), sig.hex(), m.hex() or '-', kind)
    honest = []
    for i in range(120 if thorough else 40):
        sd = rng.bytes(32); m = rng.bytes(rng.choice([0, 1, 32, 48, 80, 100, 200, rng.rng(0, 300)]))
        pk, sig = o.ed_sign(sd, m)
        honest.append((pk, sig, m))
        yield V(pk, sig, m, 'honest')
    for (pk, sig, m) in honest[:6 if thorough else 2]:
        for bit in range(512):
            yield V(pk, flip(sig, bit), m, 'sig-bit/%d' % bit)
    for (pk, sig, m) in honest[:8]:
        for _ in range(32):
            if m:
                yield V(pk, sig, flip(m, rng.below(8 * len(m))), 'msg-bit')
            yield V(flip(pk, rng.below(256)), sig, m, 'key-bit')
        yield V(pk, sig, m + b'\0', 'msg-extended')
        yield V(pk, sig, m[:-1], 'msg-truncated') if m else V(pk, sig, b'\0', 'msg-extended')
        S = int.from_bytes(sig[32:], 'little')
        k = 1
        while S + k * L < (1 << 256):
            yield V(pk, sig[:32] + (S + k * L).to_bytes(32, 'little'), m, 'S+kL/%d' % k)
            k += 1
        # R replaced by non-canonical alias of itself when it exists, S of another signature, swapped halves
        yield V(pk, sig[32:] + sig[:32], m, 'halves-swapped')
        yield V(pk, sig[:32] + honest[-1][1][32:], m, 'foreign-S')
        yield V(honest[-1][0], sig, m, 'foreign-key')
    # scalar edge values as S with an honest R
    pk, sig, m = honest[0]
    for name, S in (('0', 0), ('1', 1), ('L-1', L - 1), ('L', L), ('L+1', L + 1), ('2^252', 1 << 252), ('2^253-1', (1 << 253) - 1), ('2^255-1', (1 << 255) - 1), ('2^256-1', (1 << 256) - 1)):
        yield V(pk, sig[:32] + S.to_bytes(32, 'little'), m, 'S-edge/%s' % name)
    # S values around the limb boundaries of the canonical-scalar test (2^252 + x*2^(56j) + y, 21-bit boundaries, L - 1 + 2^k)
    c_ = L - (1 << 252)
    gap = []
    for j in range(5):
        for a in (1, 1 << 27, (1 << 56) - 1):
            for b in (0, c_ - 1, c_, c_ + 1):
                gap.append(((1 << 252) + (a << (56 * j) if j < 4 else a << 196) + b) % (1 << 256))
    gap += [L - 1 + (1 << k) for k in range(0, 256, 5)] + [(1 << 252) + (1 << k) for k in range(0, 252, 5)]
    for S in gap:
        yield V(pk, sig[:32] + S.to_bytes(32, 'little'), m, 'S-gap/%d' % (S % 9973))
    # small-order public keys, all encodings, with forgeries satisfying the equation
    so = small_order_points()
    for A in so:
        for ename, pk in encodings(A):
            for s in (0, 1, rng.below(L), L - 1):
                fg = forge(rng, pk, A, s)
                if fg:
                    kind = 'forgery-zero-key' if pk == bytes(32) else 'forgery-small-order-key'
                    yield V(pk, fg[0], fg[1], '%s/%s/ord%d' % (kind, ename, order_of(A)))
                    # the same forgery with S+L must be rejected
                    if s + L < (1 << 256):
                        yield V(pk, fg[0][:32] + (s + L).to_bytes(32, 'little'), fg[1], 'forgery-S+L/%s' % ename)
            yield V(pk, rng.bytes(64), rng.bytes(5), 'small-order-key-random-sig/%s' % ename)
            # forgeries whose non-canonical twin S + L falls into the limb-boundary gaps of the canonical test
            for g in [g for g in gap if L <= g < 2 * L][(len(ename) * 7) % 5::5][:6]:
                fg = forge(rng, pk, A, g - L)
                if fg:
                    yield V(pk, fg[0], fg[1], 'forgery-small-order-key/%s/gap-twin' % ename)
                    yield V(pk, fg[0][:32] + g.to_bytes(32, 'little'), fg[1], 'forgery-S+L-gap/%s' % ename)
    # R small order / non canonical with honest keys
    sd = rng.bytes(32); pk = o.ed_sign(sd, b'')[0]
    for A in so:
        for ename, Rb in encodings(A):
            yield V(pk, Rb + rng.below(L).to_bytes(32, 'little'), rng.bytes(8), 'R-small-order/%s' % ename)
    # non-points and non-canonical y for honest-looking triples
    pk0, sig0, m0 = honest[1]
    cnt = 0
    y = 3
    while cnt < (40 if thorough else 12):
        yb = (y % P)
        if o.recover_x(yb, 0) is None:
            yield V(yb.to_bytes(32, 'little'), sig0, m0, 'non-point-key')
            yield V((yb | (1 << 255)).to_bytes(32, 'little'), sig0, m0, 'non-point-key')
            cnt += 1
        y = rng.below(P)
    for v in (P, P + 1, P + 2, P + 3, (1 << 255) - 1, P - 1, 1, 0, 2):
        for sign in (0, 1):
            yield V((v | (sign << 255)).to_bytes(32, 'little'), sig0, m0, 'edge-key/%d' % (v % 97))
    # honest signature under a key given by its non-canonical alias cannot exist for random keys (y+p >= 2^255): use random triples instead
    for _ in range(400 if thorough else 80):
        yield V(rng.bytes(32), rng.bytes(64), rng.bytes(rng.rng(0, 20)), 'random-triple')


def ambiguous(pk):
    v = int.from_bytes(pk, 'little'); sign = v >> 255; y = v & ((1 << 255) - 1)
    if y >= P:
        return True
    x = o.recover_x(y, 0)
    return x == 0 and sign == 1


def predicate(pk, sig, m, crate_decodes):
    A = o.ed_decode(pk)
    decodes = crate_decodes if ambiguous(pk) else (A is not None)
    if not decodes or A is None:
        return False
    if pk == bytes(32):
        return False
    S = int.from_bytes(sig[32:], 'little')
    if S >= L:
        return False
    h = hram(sig[:32], pk, m)
    negA = o.ext(((-A[0]) % P, A[1]))
    Rp = o.ext_add(o.ext_mul(S, o.ext(o.B)), o.ext_mul(h, negA))
    return o.ed_encode(o.ext_aff(Rp)) == sig[:32]


def check(line, toks):
    body, _, kind = line.partition(' #')
    f = body.split()
    pk, sig, m = expand(f[1]), expand(f[2]), expand(f[3])
    if len(toks) != 2 or toks[0] not in 'TF' or toks[1] not in 'TF':
        return [('C14:verify:bad-output', repr(toks))]
    out = []
    if not ambiguous(pk) and (toks[1] == 'T') != (o.ed_decode(pk) is not None):
        out.append(('C14:decode:wrong-decision', '%s: crate decoder says %s for key %s' % (kind, toks[1], pk.hex())))
    want = predicate(pk, sig, m, toks[1] == 'T')
    if (toks[0] == 'T') != want:
        out.append(('C14:verify:%s' % ('accepts-invalid' if toks[0] == 'T' else 'rejects-valid'), '%s: verdict %s, predicate %s' % (kind, toks[0], want)))
    return out


def classify(line):
    return line.partition(' #')[2]


def coverage(line, toks):
    kind = line.partition(' #')[2].split('/')[0]
    return ['accept' if toks and toks[0] == 'T' else 'reject', 'kind:' + kind]


def san_subset(lines):
    rng = Rng('C14-san')
    return [l for l in lines if rng.below(250) == 0][:10]
