"""C17 - the 32-bit and 64-bit curve backends are observationally equivalent (and the 32-bit one compiles)."""
import os
from ..codec import Rng
from .. import runner as R
from ..dispatch import check_any

ID = 'C17'
RULE = ('(1) build event: the harness is compiled with the crate feature force-32bits under the crate\'s own lint levels - a failure violates the first clause; '
        '(2) the deterministic workloads of C12, C13, C14 and C15 (X25519, signing, verification verdicts, field programs with equality tests, scalar decoding/reduction, '
        'group operations, table entries) are executed by the default and the force-32bits binaries: outputs must be byte-identical and each must satisfy the specification '
        'model; (3) bulk differential: millions of X25519 / signing / reduction / field / double-scalar calls on derived inputs (random and 00/ff-run patterns) per backend, compared through per-block hashes, differing blocks narrowed to the call and judged by the model, sampled outputs checked against the model; distinct = distinct case lines')
ASSUMPTIONS = ['force-32bits on x86-64 stands in for a 32-bit target (no arm32 target is installed)', 'spec models of C12-C15']
FLOORS = {'evaluations': 20000, 'distinct': 8000}
THOROUGH_ROUNDS = 3   # thorough tier: generator passes with derived seeds (runner.gen_rounds)
# bulk differential (cxv/bulk.py): (kind, calls per backend, block)
BULK = {'quick': [('x25519', 1 << 17, 1024), ('x25519_base', 1 << 15, 1024), ('ed_sign', 1 << 15, 512), ('sc_reduce', 1 << 21, 1 << 14), ('sc_muladd', 1 << 22, 1 << 14), ('fe_mix', 1 << 21, 1 << 14), ('fe_inv', 1 << 16, 1024), ('ge_dsm', 1 << 14, 512)],
        'thorough': [('x25519', 1 << 25, 4096), ('x25519_base', 1 << 23, 4096), ('ed_sign', 1 << 22, 4096), ('sc_reduce', 1 << 28, 1 << 17), ('sc_muladd', 1 << 28, 1 << 17), ('fe_mix', 1 << 28, 1 << 17), ('fe_inv', 1 << 24, 1 << 13), ('ge_dsm', 1 << 22, 4096)]}


class _Mod:
    ID = ID

    @staticmethod
    def check(line, toks):
        out = []
        for s, m in check_any(line, toks):
            out.append(('C17:spec:' + s.split(':', 1)[1], m))
        return out

    @staticmethod
    def classify(line):
        return line[:240]

    @staticmethod
    def coverage(line, toks):
        return [line.split()[0]]


def gen(tier, seed):
    from . import c12, c13, c14, c15
    for m in (c12, c13, c14, c15):
        for l in m.gen(tier, seed):
            if l.endswith('#fe-deep64'):
                continue      # sums of sums: outside the magnitude precondition the 32-bit backend documents for `+`
            if l.startswith('x25519_iter') and ' 1 #' not in l:
                l = l.replace(' 10000 500 ', ' 1000 500 ')
            yield l


def run(tier, seed, replay=None):
    rep = R.Report(ID, tier, seed)
    rep.rule = RULE; rep.assumptions = list(ASSUMPTIONS)
    lines = [l.rstrip('\n') for l in open(replay) if l.strip() and not l.startswith('#')] if replay else R.gen_rounds(__import__('sys').modules[__name__], tier, seed)
    bulk_lines = [l for l in lines if l.startswith('bulk ')]
    lines = [l for l in lines if not l.startswith('bulk ')]
    wd = R.workdir(ID)
    casefile = os.path.join(wd, 'cases-%s-%d.txt' % (tier, seed))
    R.write_cases(casefile, lines)
    rel = R.build('rel')
    f32, log = R.build('f32', allow_fail=True)
    compile_ok = f32 is not None
    if not compile_ok:
        # the compile clause is violated; keep the differential running through a lint-capped build
        errs = [l for l in log.splitlines() if l.startswith('error')][:5]
        rep.violations.append(('build', -1, 'C17:force-32bits:does-not-compile', 'cargo build --features force-32bits failed: %s' % ' / '.join(errs), '# cargo build --features force-32bits', None))
        f32 = R.build('f32cap')
    r64, cr1 = R.run_driver(rel, casefile, len(lines), 'rel')
    r32, cr2 = R.run_driver(f32, casefile, len(lines), 'f32')
    if cr1 or cr2:
        raise R.Inconclusive('driver crashed: %r' % ((cr1 + cr2)[:2],))
    rep.samples = R.sample_lines(lines)
    rep.add_phase('f32-vs-spec', _Mod, lines, r32)
    ndiff = 0
    for i, l in enumerate(lines):
        a, b = r64.get(i), r32.get(i)
        rep.evaluations += 1
        if a != b:
            ndiff += 1
            rep.violations.append(('diff', i, 'C17:%s:backend-mismatch' % l.split()[0], '64-bit backend: %s | 32-bit backend: %s' % (' '.join(a or ['<none>'])[:70], ' '.join(b or ['<none>'])[:70]), l, b))
    from .. import bulk
    if replay:
        plan = bulk.plan_from_replay(bulk_lines)
    else:
        plan = [(k, (seed * 1000 + 500 + n) % (1 << 31), 0, c, b) for n, (k, c, b) in enumerate(BULK[tier if tier in BULK else 'quick'])]
    bcov = bulk.run_differential(rep, 'C17', plan, {'rel': rel, 'f32': f32}, wd, '%s-%d' % (tier, seed), judge='both', model_calls=(1 << 22) if tier == 'thorough' else (1 << 19)) if plan else None
    extra = {'bulk_differential': bcov, 'force_32bits_compiles_with_crate_lints': compile_ok, 'records_compared': len(lines), 'backend_differences': ndiff,
             'workloads': ['C12', 'C13', 'C14', 'C15']}
    return rep.finish(None if replay else FLOORS, extra)   # a replay re-runs a handful of cases: no floors
