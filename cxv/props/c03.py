"""C03 - ChaCha / Salsa families produce exactly the specified keystream."""
from ..codec import Rng, expand, spec_len
from ..streammodel import sc_model

ID = 'C03'
RULE = ('one record per (variant, rounds, key, nonce, start block, data): output must equal data XOR position-indexed keystream of the '
        'RFC 8439 / Bernstein / XChaCha / XSalsa models; start blocks include 2^32-2, 2^32-1 and every 8/16/24-bit lane boundary of the counter words (seek) and 64-bit counters preset by hook; '
        'portable engine driven through the hook wrapper; distinct = (variant, rounds, keylen, key class, start class, length)')
ASSUMPTIONS = ['pure-Python ChaCha/Salsa/HChaCha/HSalsa models pinned by RFC 8439, ECRYPT, NaCl and draft-xchacha vectors; ChaCha20 also vs openssl']
FLOORS = {'evaluations': 3000, 'distinct': 1500}
THOROUGH_ROUNDS = 150   # thorough tier: generator passes with derived seeds (runner.gen_rounds)
EXTRA_CFGS = ['f32']   # the workload is also executed by the force-32bits build of the library; results must not change (runner.standard_check)

VARIANTS = {  # variant: (key lengths, nonce length, counter bits, has seek)
    'chacha': ((16, 32), 12, 32, True), 'xchacha': ((32,), 24, 32, True), 'chachao': ((16, 32), 8, 64, False),
    'salsa': ((16, 32), 8, 64, False), 'xsalsa': ((32,), 24, 64, False),
    'pchacha': ((16, 32), 12, 32, True), 'pchachao': ((16, 32), 8, 64, False), 'pxchacha': ((32,), 24, 32, True),
}


def keyspecs(rng, n, structured):
    out = [('rnd', rng.data(n))]
    if structured:
        out += [('rnd', rng.data(n)), ('rnd', rng.data(n))]
        out += [('00', '=00:%d' % n), ('ff', '=ff:%d' % n), ('bit', ('01' + '00' * (n - 1))), ('bit', ('00' * (n - 1) + '80'))]
        out += [('words', rng.word_pattern(n)) for _ in range(3)]
    return out


def gen(tier, seed):
    rng = Rng('C03', seed)
    thorough = tier == 'thorough'
    lens = [0, 1, 63, 64, 65, 127, 128, 129, 200, 1000]
    for v, (klens, nl, bits, has_seek) in VARIANTS.items():
        for rounds in (8, 12, 20):
            for kl in klens:
                for kc, key in keyspecs(rng, kl, True):
                    for nc, nonce in keyspecs(rng, nl, kc == 'rnd'):
                        ls = lens if (kc == 'rnd' and nc == 'rnd') else [65, 200]
                        for ln in ls + ([rng.rng(130, 4096)] if kc == 'rnd' else []):
                            # start block 0: zero data (pure keystream) and random data
                            yield 'sc %s %d %s %s p.0.%s #%s/%s/start0' % (v, rounds, key, nonce, '=00:%d' % ln if ln and rng.below(2) else rng.data(ln), kc, nc)
                # starting blocks
                # besides the word boundary: every byte / 16-bit lane boundary of the counter word (a vectorised increment done on the wrong lane width wraps there)
                starts = [1, 2, (1 << 32) - 2, (1 << 32) - 1, 0xff, 0xffff, 0xffffff, (rng.rng(1, 0xfffe) << 16) | 0xffff, (rng.rng(1, 0xfffffe) << 8) | 0xff, 0x7fffffff, 0x80000000]
                for st in starts:
                    key, nonce = rng.data(kl), rng.data(nl)
                    for ln in (64, 65, 129, 200, 300):
                        if has_seek:
                            yield 'sc %s %d %s %s s.0.%d p.0.%s #rnd/rnd/seek%s' % (v, rounds, key, nonce, st, rng.data(ln), 'wrap' if st >= (1 << 32) - 2 else ('lane' if st > 100 else 'low'))
                        else:
                            yield 'sc %s %d %s %s S.0.%d p.0.%s #rnd/rnd/set%s' % (v, rounds, key, nonce, st, rng.data(ln), 'lowword' if st >= (1 << 32) - 2 else ('lane' if st > 100 else 'low'))
                if bits == 64:
                    hi = rng.below(1 << 32)
                    for st in [((hi << 32) | 0xfffffffe), ((hi << 32) | 0xffffffff), (1 << 64) - 2, (1 << 64) - 1, rng.below(1 << 64),
                               0xffffffff, 0xff_ffffffff, 0xffff_ffffffff, 0xffffff_ffffffff, 0x7fffffff_ffffffff, (rng.rng(1, 0xfffe) << 48) | 0xffff_ffffffff]:
                        key, nonce = rng.data(kl), rng.data(nl)
                        for ln in (64, 130, 200):
                            yield 'sc %s %d %s %s S.0.%d p.0.%s #rnd/rnd/set64' % (v, rounds, key, nonce, st, rng.data(ln))
                elif v in ('pchacha', 'pxchacha'):
                    pass
    # every data length 0..=300 in one call, from block 0 and from a random starting block (20 rounds; other round counts sampled)
    for v, (klens, nl, bits, has_seek) in VARIANTS.items():
        for n in range(0, 301):
            rounds = 20 if n % 4 else rng.choice([8, 12])
            kl = rng.choice(klens)
            if n % 2:
                yield 'sc %s %d %s %s p.0.%s #rnd/rnd/lensweep' % (v, rounds, rng.data(kl), rng.data(nl), rng.data(n))
            else:
                yield 'sc %s %d %s %s %s.0.%d p.0.%s #rnd/rnd/lensweep' % (v, rounds, rng.data(kl), rng.data(nl), 's' if has_seek else 'S', rng.below(1 << min(bits, 40)), rng.data(n))
    reps = 60 if thorough else 12
    for _ in range(reps):
        for v, (klens, nl, bits, has_seek) in VARIANTS.items():
            for rounds in (8, 12, 20):
                kl = rng.choice(klens)
                st = rng.below(1 << bits)
                ln = rng.rng(1, 2000)
                yield 'sc %s %d %s %s %s.0.%d p.0.%s #rnd/rnd/rndstart' % (v, rounds, rng.data(kl), rng.data(nl), 's' if has_seek else 'S', st, rng.data(ln))


def check(line, toks):
    body = line.split(' #')[0]
    exp, _ = sc_model(body)
    if toks != exp:
        v = body.split()[1]
        return [('C03:%s:keystream-mismatch' % v, 'expected %s.. got %s..' % (' '.join(exp)[:80], ' '.join(toks)[:80]))]
    return []


def classify(line):
    body, _, cls = line.partition(' #')
    f = body.split()
    ln = spec_len(f[-1].split('.')[2])
    return (f[1], f[2], spec_len(f[3]), cls, ln)


def coverage(line, toks):
    body, _, cls = line.partition(' #')
    f = body.split()
    return ['%s:%s' % (f[1], cls.split('/')[2])]


def san_subset(lines):
    rng = Rng('C03-san')
    return [l for l in lines if rng.below(12) == 0][:300]
