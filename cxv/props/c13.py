"""C13 - Ed25519 key generation and signing equal RFC 8032 for every seed and message."""
import hashlib
from ..codec import Rng, expand, spec_len
from .. import oracle as o

ID = 'C13'
RULE = ('(messages are handed to the library from byte offset (len + first byte) mod 16 of a 64-byte aligned buffer) one record per call of keypair / signature / signature_extended / extended_to_public / exchange; outputs must equal the RFC 8032 transcription '
        '(and X25519 of the hashed secret with the birationally mapped key for exchange); every message length 0..=300 (one seed in quick, several in thorough), '
        'sampled 1-64 KiB, structured seeds, extended secrets derived from seeds and arbitrary clamped ones; distinct = (op, seed class, message length)')
ASSUMPTIONS = ['bulk phase: the force-32bits backend serves as a second implementation for locating rare disagreements; a disagreement is reported only when the Python model shows the default build wrong, and sampled outputs are always checked against the Python model', 'Python-int RFC 8032 model pinned by RFC 8032 7.1 vectors; hashlib SHA-512']
EXTRA_CFGS = ['f32']   # the workload is also executed by the force-32bits build (fe32 / scalar32 are anchors of this property); tokens must equal the model-checked default build's
FLOORS = {'evaluations': 12000, 'distinct': 10000}
THOROUGH_ROUNDS = 4   # thorough tier: generator passes with derived seeds (runner.gen_rounds)
# bulk phase (cxv/bulk.py): keypair + signature + verification of it on derived seeds / messages of 0..63 bytes
BULK = {'quick': [('ed_sign', 1 << 14, 512)], 'thorough': [('ed_sign', 1 << 22, 4096)]}
P = o.P


def ext_of(seed):
    h = bytearray(hashlib.sha512(seed).digest())
    h[0] &= 248; h[31] &= 63; h[31] |= 64
    return bytes(h)


def sign_ext(ext, msg):
    a = int.from_bytes(ext[:32], 'little')
    A = o.ed_pub_from_scalar(a)
    r = int.from_bytes(hashlib.sha512(ext[32:] + msg).digest(), 'little') % o.L
    R = o.ed_encode(o.ext_aff(o.ext_mul(r, o.ext(o.B))))
    h = int.from_bytes(hashlib.sha512(R + A + msg).digest(), 'little') % o.L
    return A, R + ((r + h * a) % o.L).to_bytes(32, 'little')


def gen(tier, seed):
    rng = Rng('C13', seed)
    thorough = tier == 'thorough'
    seeds = [('rnd/%d' % i, rng.bytes(32)) for i in range(400 if thorough else 60)]
    for sc, sd in seeds:
        for n in range(0, 301):
            yield 'ed_sign %s %s #%s' % (sd.hex(), rng.data(n), sc)
    structured = [('zero', bytes(32)), ('ones', b'\xff' * 32), ('bit0', b'\x01' + bytes(31)), ('bit255', bytes(31) + b'\x80')] + [('rnd', rng.bytes(32)) for _ in range(30 if thorough else 10)]
    for sc, sd in structured:
        yield 'ed_keypair %s #%s' % (sd.hex(), sc)
        ext = ext_of(sd)
        yield 'ed_ext_pub %s #%s' % (ext.hex(), sc)
        for n in (0, 1, 47, 48, 55, 56, 79, 80, 87, 88, 111, 112, 128, 200):
            yield 'ed_sign %s %s #%s' % (sd.hex(), rng.data(n), sc)
            if n in (0, 48, 80, 200):
                yield 'ed_sign_ext %s %s #%s/derived' % (ext.hex(), rng.data(n), sc)
        # exchange with assorted public keys
        for _ in range(3):
            other = rng.bytes(32)
            pk = o.ed_sign(other, b'')[0]
            yield 'ed_exchange %s %s #%s/honest' % (pk.hex(), sd.hex(), sc)
        yield 'ed_exchange %s %s #%s/rndbytes' % (rng.bytes(32).hex(), sd.hex(), sc)
    for pk in (bytes(32), b'\x01' + bytes(31), (P - 1).to_bytes(32, 'little'), b'\xff' * 32, (P).to_bytes(32, 'little')):
        yield 'ed_exchange %s %s #edge-pk' % (pk.hex(), rng.bytes(32).hex())
    # arbitrary (not seed-derived) extended secrets: clamped low half, random high half; and unclamped below 2^255
    for i in range(40 if thorough else 12):
        e = bytearray(rng.bytes(64))
        if i % 2 == 0:
            e[0] &= 248; e[31] &= 63; e[31] |= 64
            cls = 'ext-clamped'
        else:
            e[31] &= 0x7f
            cls = 'ext-unclamped<2^255'
        yield 'ed_ext_pub %s #%s' % (bytes(e).hex(), cls)
        yield 'ed_sign_ext %s %s #%s' % (bytes(e).hex(), rng.data(rng.choice([0, 1, 80, 300])), cls)
    # clamped extended scalars made of 64-bit words of sevens / eights / all-ones (carries of a word-wise digit recoding sit between them)
    from .c15 import word_pattern_scalars
    for v in word_pattern_scalars(rng, 90 if thorough else 30):
        e = bytearray(v.to_bytes(32, 'little') + rng.bytes(32))
        e[0] &= 248; e[31] &= 63; e[31] |= 64
        yield 'ed_ext_pub %s #ext-word-pattern' % bytes(e).hex()
        yield 'ed_sign_ext %s %s #ext-word-pattern' % (bytes(e).hex(), rng.data(rng.choice([0, 33])))
    # clamped extended scalars a = t + k*L whose residue t modulo the group order is an edge value (0, 1, 2^252 +- j, L - j): what
    # the implementation does with a (reduce it, recode it into signed nibbles, multiply) sees its corner cases
    L_ = o.L
    targets = [0, 1, 2, 7, 8, 9, (1 << 252) - 1, (1 << 252), (1 << 252) + 1, (1 << 252) + 4, (1 << 252) + 8, L_ - 1, L_ - 2, L_ - 7, L_ - 8, L_ - 9, (1 << 251), (1 << 128)]
    targets += [(1 << 252) + rng.below(L_ - (1 << 252)) for _ in range(10 if thorough else 4)] + [rng.below(L_) for _ in range(6)]
    targets = sorted(set((t + d) % L_ for t in targets for d in range(-8, 9)))
    for t in targets:
        for k in range(4, 8):
            a = t + k * L_
            if a % 8 == 0 and (1 << 254) <= a < (1 << 255):
                ext = a.to_bytes(32, 'little') + rng.bytes(32)
                yield 'ed_ext_pub %s #ext-clamped-crafted-modL' % ext.hex()
                yield 'ed_sign_ext %s %s #ext-clamped-crafted-modL' % (ext.hex(), rng.data(rng.choice([0, 5, 100])))
    for _ in range(12 if thorough else 3):
        yield 'ed_sign %s %s #long' % (rng.bytes(32).hex(), rng.data(rng.rng(1024, 65536)))


def check(line, toks):
    body, _, cls = line.partition(' #')
    f = body.split()
    op = f[0]
    if op == 'ed_keypair':
        sd = expand(f[1]); pk = o.ed_sign(sd, b'')[0]
        exp = [(sd + pk).hex(), pk.hex()]
    elif op == 'ed_sign':
        exp = [o.ed_sign(expand(f[1]), expand(f[2]))[1].hex()]
    elif op == 'ed_sign_ext':
        exp = [sign_ext(expand(f[1]), expand(f[2]))[1].hex()]
    elif op == 'ed_ext_pub':
        exp = [o.ed_pub_from_scalar(int.from_bytes(expand(f[1])[:32], 'little')).hex()]
    elif op == 'ed_exchange':
        pk, sd = expand(f[1]), expand(f[2])
        y = (int.from_bytes(pk, 'little') & ((1 << 255) - 1)) % P
        u = (1 + y) * pow((1 - y) % P, P - 2, P) % P
        exp = [o.x25519(ext_of(sd)[:32], u.to_bytes(32, 'little')).hex()]
    if toks != exp:
        n = spec_len(f[2]) if op in ('ed_sign', 'ed_sign_ext') else -1
        return [('C13:%s:output-mismatch' % op, '%s msglen=%d: expected %s.. got %s..' % (cls, n, exp[0][:40], ' '.join(toks)[:40]))]
    return []


def classify(line):
    body, _, cls = line.partition(' #')
    f = body.split()
    return (f[0], cls, spec_len(f[2]) if len(f) > 2 and f[0].startswith('ed_sign') else f[1][:8])


def coverage(line, toks):
    body, _, cls = line.partition(' #')
    f = body.split()
    out = [f[0]]
    if f[0] in ('ed_sign', 'ed_sign_ext'):
        n = spec_len(f[2])
        if (n + 32) % 128 in range(112, 128):
            out.append('nonce-hash-pad-extra-block')
        if (n + 64) % 128 in range(112, 128):
            out.append('challenge-hash-pad-extra-block')
    return out


def san_subset(lines):
    rng = Rng('C13-san')
    return [l for l in lines if rng.below(150) == 0 and '#long' not in l][:8]
