"""C09 - MAC and digest objects: reset rekeys, results never silently change."""
from ..codec import Rng, expand, spec_len
from ..macmodel import check_history
from .. import oracle as o

ID = 'C09'
RULE = ('one record per history of {input(chunk), result, raw_result, reset, clone, clone_from} on HMAC (6 digests), Poly1305, keyed BLAKE2b/2s through the Mac '
        'trait and every legacy digest through the Digest trait; model = (key, bytes since reset, finalized, last result): a first result must '
        'be the MAC/digest of the bytes since reset (same key after reset), a repeated result must be identical or panic, input after result must '
        'panic; the legacy BLAKE2 objects are also reset / re-keyed through their own reset() and reset_with_key() (empty and non-empty keys) between trait resets; a result() refused for a wrong-sized buffer is caught and the same object is used again (it may then panic or answer correctly, never anything else); exhaustive histories to depth 3 (quick) / 4 (thorough) over an 8-symbol alphabet plus random histories to length 30; '
        'distinct = (type, op-kind sequence with length classes)')
ASSUMPTIONS = ['MAC reference functions of C05/C08; a panic ends the history (the object is retired)']
THOROUGH_ROUNDS = 40   # thorough tier: generator passes with derived seeds (runner.gen_rounds)
EXTRA_CFGS = ['f32']   # the workload is also executed by the force-32bits build of the library; results must not change (runner.standard_check)
FLOORS = {'evaluations': 8000, 'distinct': 4000,
          'coverage': {'result:repeated:len%16==0': 50, 'input-after-result': 50, 'result:first:len%16==0:after-reset': 50}}

MACS = [('poly1305', 32, 16, True), ('hmac:sha1', None, 64, False), ('hmac:sha256', None, 64, False), ('hmac:sha512', None, 128, False),
        ('hmac:sha3_256', None, 136, False), ('hmac:ripemd160', None, 64, False), ('hmac:blake2s:32', None, 64, False),
        ('b2bmac:64', 'b', 128, True), ('b2bmac:20', 'b', 128, True), ('b2smac:32', 's', 64, True), ('b2smac:7', 's', 64, True)]
DIGS = ['sha1', 'sha224', 'sha256', 'sha384', 'sha512', 'sha512_224', 'sha512_256', 'sha3_224', 'sha3_256', 'sha3_384', 'sha3_512',
        'keccak224', 'keccak256', 'keccak384', 'keccak512', 'ripemd160', 'blake2b:64', 'blake2b:17', 'blake2s:32', 'blake2s:9']


def render(rng, seq, bs, can_clone, outlen, op0):
    steps = []
    cur, nobj = 0, 1
    for sym in seq:
        if sym == 'c' and can_clone and nobj > 1 and rng.below(3) == 0:
            # instead of a fresh clone: overwrite the current object with another existing one through clone_from
            src = rng.choice([x for x in range(nobj) if x != cur])
            steps.append('cf.%d.%d' % (cur, src))
            continue
        if sym[0] == 'i':
            steps.append('i.%d.%s' % (cur, rng.data(sym[1])))
        elif sym == 'r':
            steps.append('r.%d' % cur)
        elif sym == 'rr':
            n = outlen
            if op0 == 'mac' and outlen == 16 and not can_clone_is_hmac(steps) and rng.below(3) == 0:
                n = rng.choice([17, 32, 48])          # Poly1305 documents "at least 16 bytes"
            steps.append(('rr.%d.%d' % (cur, n)) if op0 == 'mac' else 'r.%d.%d' % (cur, outlen))
        elif sym == 'x':
            steps.append('x.%d' % cur)
        elif sym == 'xi':
            steps.append('xi.%d' % cur)
        elif sym == 'xk':
            steps.append('xk.%d.%s' % (cur, rng.data(rng.choice([0, 0, 1, 16, 32]))))
        elif sym == 'bad':
            n = rng.choice([0, outlen - 1, outlen + 1, 2 * outlen]) if outlen > 1 else rng.choice([0, 2])
            if op0 == 'mac' and outlen == 16 and n > 16:
                n = rng.choice([0, 1, 15])         # Poly1305 accepts longer buffers
            steps.append(('rrc.%d.%d' % (cur, n)) if op0 == 'mac' else 'rc.%d.%d' % (cur, n))
        elif sym == 'c':
            if can_clone:
                steps.append('c.%d.%d' % (cur, nobj)); cur = nobj; nobj += 1
            else:
                steps.append('x.%d' % cur)
    return steps


def can_clone_is_hmac(_steps):
    return not POLY[0]


POLY = [False]      # set by gen() while it renders Poly1305 histories (only Poly1305 accepts longer result buffers)


def alphabet(bs):
    return [('i', 0), ('i', 1), ('i', bs), ('i', bs + 1), 'r', 'rr', 'x', 'c']


def sequences(alph, depth):
    def rec(prefix, d):
        if d == 0:
            yield prefix
            return
        for a in alph:
            yield from rec(prefix + [a], d - 1)
    for d in range(1, depth + 1):
        yield from rec([], d)


def random_seq(rng, bs, n):
    seq = []
    for _ in range(n):
        r = rng.below(100)
        if r < 45:
            seq.append(('i', rng.choice([0, 1, 15, 16, 17, 32, bs - 1, bs, bs + 1, 2 * bs, rng.rng(0, 3 * bs)])))
        elif r < 65:
            seq.append('r')
        elif r < 75:
            seq.append('rr')
        elif r < 92:
            seq.append('x')
        else:
            seq.append('c')
    return seq


def gen(tier, seed):
    rng = Rng('C09', seed)
    thorough = tier == 'thorough'
    depth = 4 if thorough else 3
    nrand = 1000 if thorough else 200
    for ty, keyspec, bs, can_clone in MACS:
        POLY[0] = ty == 'poly1305'
        outlen = 16 if ty == 'poly1305' else (o.digest_fn(ty[5:])[2] if ty.startswith('hmac') else int(ty.split(':')[1]))
        def key():
            if keyspec == 32:
                return rng.data(32)
            if keyspec == 'b':
                return rng.data(rng.choice([1, 16, 64]))
            if keyspec == 's':
                return rng.data(rng.choice([1, 16, 32]))
            return rng.data(rng.choice([0, 1, 20, bs, bs + 1]))
        for seq in sequences(alphabet(bs), depth):
            # always end with a fresh result so that the state after the sequence is observed
            yield 'mac %s %s %s' % (ty, key(), ' '.join(render(rng, seq + ['x', ('i', rng.choice([0, 5, bs])), 'r'] if rng.below(2) else seq + ['r'], bs, can_clone, outlen, 'mac')))
        for _ in range(nrand):
            yield 'mac %s %s %s' % (ty, key(), ' '.join(render(rng, random_seq(rng, bs, rng.rng(4, 30)) + ['r'], bs, can_clone, outlen, 'mac')))
    # (a) the legacy BLAKE2 objects also have their own reset() / reset_with_key(): mixed with the trait resets; (b) a result() refused for a
    # wrong-sized buffer, caught, and the same object used again
    for ty, keyspec, bs, can_clone in MACS:
        POLY[0] = ty == 'poly1305'
        outlen = 16 if ty == 'poly1305' else (o.digest_fn(ty[5:])[2] if ty.startswith('hmac') else int(ty.split(':')[1]))
        legacy_b2 = ty.startswith(('b2bmac', 'b2smac'))
        for _ in range((600 if thorough else 120) if legacy_b2 else (200 if thorough else 40)):
            seq = []
            for _ in range(rng.rng(3, 14)):
                r = rng.below(100)
                if r < 40:
                    seq.append(('i', rng.choice([0, 1, 16, bs - 1, bs, bs + 1, rng.rng(0, 2 * bs)])))
                elif r < 55:
                    seq.append('r')
                elif r < 65:
                    seq.append('x')
                elif r < 80:
                    seq.append(rng.choice(['xi', 'xk']) if legacy_b2 else 'bad')
                elif r < 92:
                    seq.append('bad')
                else:
                    seq.append('c')
            k = rng.data(32) if keyspec == 32 else rng.data(rng.choice([1, 16, 32]))
            yield 'mac %s %s %s' % (ty, k, ' '.join(render(rng, seq + ['r', 'x', ('i', rng.choice([0, 5, bs])), 'r'], bs, can_clone, outlen, 'mac')))
    POLY[0] = False
    for d in DIGS:
        _, bs, outlen = o.digest_fn(d)
        legacy_b2 = d.startswith('blake2')
        for _ in range((300 if thorough else 60) if legacy_b2 else (100 if thorough else 20)):
            seq = []
            for _ in range(rng.rng(3, 12)):
                r = rng.below(100)
                if r < 40:
                    seq.append(('i', rng.choice([0, 1, bs - 1, bs, bs + 1, rng.rng(0, 2 * bs)])))
                elif r < 55:
                    seq.append('r')
                elif r < 65:
                    seq.append('x')
                elif r < 80:
                    seq.append(rng.choice(['xi', 'xk']) if legacy_b2 else 'bad')
                elif r < 92:
                    seq.append('bad')
                else:
                    seq.append('c')
            yield 'dig %s %s' % (d, ' '.join(render(rng, seq + ['r', 'x', ('i', rng.choice([0, 5, bs])), 'r'], bs, True, outlen, 'dig')))
    for d in DIGS:
        _, bs, outlen = o.digest_fn(d)
        for seq in sequences(alphabet(bs), depth if thorough else 2):
            yield 'dig %s %s' % (d, ' '.join(render(rng, seq + ['x', ('i', rng.choice([0, 5, bs])), 'r'] if rng.below(2) else seq + ['r'], bs, True, outlen, 'dig')))
        for _ in range(nrand):
            yield 'dig %s %s' % (d, ' '.join(render(rng, random_seq(rng, bs, rng.rng(4, 30)) + ['r'], bs, True, outlen, 'dig')))


def check(line, toks):
    viol, _ = check_history(line, toks)
    f = line.split()
    ty = f[1].split(':')[0] if f[0] == 'mac' else 'digest-' + f[1].split(':')[0]
    return [('C09:%s:%s' % (ty, k), m) for k, m in viol]


def classify(line):
    f = line.split()
    steps = f[3:] if f[0] == 'mac' else f[2:]
    def cls(s):
        p = s.split('.')
        if p[0] == 'i':
            return 'i%d' % spec_len(p[2])
        return p[0]
    return (f[0], f[1], tuple(cls(s) for s in steps))


def coverage(line, toks):
    return check_history(line, toks)[1]


def san_subset(lines):
    rng = Rng('C09-san')
    return [l for l in lines if rng.below(80) == 0][:200]
