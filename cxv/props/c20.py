"""C20 - valid inputs never panic or vary with build profile; misuse fails loudly."""
import os
from ..codec import Rng, expand, spec_len
from .. import runner as R
from .. import sanitizers as S
from .. import oracle as o

ID = 'C20'
RULE = ('(a) the quick workloads of C01-C15 and C18 are executed by {release, release+overflow-checks+debug-assertions, dev} binaries: logs (values and PANIC records) must be '
        'byte-identical, and the same comparison at volume over bulk lines (millions of curve / field / scalar / Poly1305 calls per profile, compared through block hashes); (b) BLAKE2b/2s contexts with the byte counter preset next to 2^32, 2^64 (s) and 2^64, 2^128 (b) then fed 0-300 bytes must equal the RFC 7693 model with the '
        'same starting counter in all three profiles (cipher block counters next to their word boundaries come with the C03/C04 workloads); (c) every documented invalid argument shape '
        'per entry point, executed twice in each profile, must be refused by PANIC / Err / the type system, never return bytes; (d) sanitizer passes (Miri Tree Borrows, ASan, '
        'memcheck) over boundary subsets of all workloads plus all of (b) and (c): any report with a frame inside the crate is a violation; '
        'distinct = distinct case lines (per phase)')
ASSUMPTIONS = ['rel outputs are compared with the specification by C01-C15/C18 themselves; here the three profiles are compared with each other',
               'RFC 7693 BLAKE2 transcription pinned against hashlib',
               'Miri is run with Tree Borrows (the Stacked Borrows report in cryptoutil::read_u32v_be concerns the aliasing model, not one of the properties)']
FLOORS = {'evaluations': 100000, 'distinct': 20000}
PROFILES = ['rel', 'chk', 'dbg']
# bulk lines executed by all three profiles: (kind, calls, block)
BULK = {'quick': [('x25519', 1 << 15, 1024), ('x25519_base', 1 << 13, 1024), ('ed_sign', 1 << 13, 512), ('sc_reduce', 1 << 20, 1 << 14), ('fe_mix', 1 << 20, 1 << 14), ('fe_inv', 1 << 14, 1024), ('ge_dsm', 1 << 12, 512), ('poly1305', 1 << 20, 1 << 14)],
        'thorough': [('x25519', 1 << 20, 4096), ('x25519_base', 1 << 18, 4096), ('ed_sign', 1 << 18, 4096), ('sc_reduce', 1 << 25, 1 << 16), ('fe_mix', 1 << 25, 1 << 16), ('fe_inv', 1 << 19, 4096), ('ge_dsm', 1 << 17, 4096), ('poly1305', 1 << 24, 1 << 16)]}
SOURCES = ['c01', 'c02', 'c03', 'c04', 'c05', 'c06', 'c07', 'c08', 'c09', 'c10', 'c11', 'c12', 'c13', 'c14', 'c15', 'c18']


# ------------------------------------------------------------------ (b) counters
def counter_cases(rng, thorough):
    ks = [1, 63, 64, 65, 127, 128, 129, 192, 256, 257]
    for fam, W, bs, maxo, maxk in (('b2s', 32, 64, 32, 32), ('b2b', 64, 128, 64, 64)):
        for wrap in (1 << W, 2 << W, 3 << W, 1 << (2 * W)):      # first, second and third carry into the high word, and the full wrap
            for k in ks:
                t = wrap - k
                for n in [0, 1, bs - 1, bs, bs + 1, 2 * bs, 2 * bs + 1, 300] + ([rng.rng(0, 600) for _ in range(6)] if thorough else [rng.rng(0, 400)]):
                    for keyed in (0, 1):
                        ol = rng.choice([1, maxo // 2, maxo])
                        key = rng.data(rng.choice([1, maxk])) if keyed else '-'
                        m = rng.bytes(n)
                        c = rng.rng(0, n)
                        upd = rng.choice(['m', 'u'])
                        yield 'hh %s/%d/%s t.0.0x%x %s.0.%s m.0.%s F.0 #counter/%s/wrap2^%d/k%d' % (fam, ol, key, t, upd, m[:c].hex() or '-', m[c:].hex() or '-', fam, wrap.bit_length() - 1, k)
        # the high counter word must not survive any way of starting over: after the counter has passed (or been preset beyond) the
        # word boundary the context is reset / re-keyed / finalize-reset / finalize-reset-with-key / cloned-then-reset and reused
        for wrap in (1 << W, 1 << (2 * W)):
            for how in ('r', 'k', 'f', 'fk', 'cr'):
                for pre in ((wrap - 1, bs + 5), (wrap + 3 * bs, 0), (wrap - bs, bs + 1)) + (((wrap + (1 << (W + 3)) + 7 * bs) % (1 << (2 * W)), 17),) * (1 if thorough else 0):
                    t, n1 = pre
                    t %= 1 << (2 * W)      # the counter has 2W bits
                    ol = rng.choice([1, maxo // 2, maxo])
                    key1 = rng.data(rng.choice([1, maxk])) if rng.below(2) else '-'
                    key2 = rng.data(rng.choice([1, maxk // 2, maxk]))
                    n2 = rng.choice([0, 1, bs - 1, bs, bs + 1, 2 * bs + 3])
                    mid = {'r': 'r.0', 'k': 'k.0.%s' % key2, 'f': 'f.0', 'fk': 'fk.0.%s' % key2, 'cr': 'c.0.1 r.1'}[how]
                    who = 1 if how == 'cr' else 0
                    variant = '%s/%d/%s' % (fam, ol, key1)
                    yield 'hh %s t.0.0x%x m.0.%s %s m.%d.%s F.%d #counter/%s-reuse-%s/wrap2^%d/k%d' % (variant, t, rng.data(n1), mid, who, rng.data(n2), who, fam, how, wrap.bit_length() - 1, n1)
        # typed contexts too
        for bits in ((224, 256, 384, 512) if fam == 'b2b' else (224, 256)):
            for k in (1, bs, bs + 1):
                t = (1 << W) - k
                yield 'hh %st/%d/- t.0.0x%x m.0.%s f.0 m.0.%s F.0 #counter/%st/wrap2^%d/k%d' % (fam, bits, t, rng.data(rng.rng(1, 300)), rng.data(10), fam, W, k)


def check_counter(line, toks):
    """sequential model of a BLAKE2 context whose byte counter may have been preset (hook): per object (key, bytes, counter preset)"""
    body = line.split(' #')[0]
    f = body.split()
    p = f[1].split('/')
    big = p[0].startswith('b2b')
    typed = p[0].endswith('t')
    ol = (int(p[1]) + 7) // 8 if typed else int(p[1])
    objs = {0: [expand(p[2]), b'', None]}       # key, message since reset, counter preset (None = natural)
    outs = []
    for s in f[2:]:
        q = s.split('.')
        ob = objs[int(q[1])]
        if q[0] == 't':
            ob[2] = int(q[2], 16)
        elif q[0] in ('m', 'u'):
            ob[1] += expand(q[2])
        elif q[0] in ('F', 'f', 'fk'):
            outs.append(o.blake2_pure(big, ol, ob[0], ob[1], t_preset_after_key=ob[2]).hex())
            ob[0] = expand(q[2]) if q[0] == 'fk' else b''     # finalize_reset -> fresh unkeyed context, counter 0
            ob[1] = b''; ob[2] = None
        elif q[0] == 'r':
            ob[0] = b''; ob[1] = b''; ob[2] = None
        elif q[0] == 'k':
            ob[0] = expand(q[2]); ob[1] = b''; ob[2] = None
        elif q[0] == 'c':
            objs[int(q[2])] = list(ob)
    if toks != outs:
        return [('C20:blake2-counter:value-mismatch', 'expected %s got %s' % (' '.join(outs)[:80], ' '.join(toks)[:80]))]
    return []


# ------------------------------------------------------------------ (c) refusal probes
def refusal_cases(rng):
    """yields (line, index of the token that must be a refusal)"""
    k32, k16, n12, n8, n24 = rng.data(32), rng.data(16), rng.data(12), rng.data(8), rng.data(24)
    R_ = []
    def add(line, idx=0, what=''):
        R_.append(('%s #refuse/%s' % (line, what), idx))
    for kl in (0, 1, 15, 17, 31, 33, 64):
        add('sc chacha 20 %s %s p.0.00' % (rng.data(kl), n12), 0, 'chacha-keylen/%d' % kl)
        add('sc chachao 20 %s %s p.0.00' % (rng.data(kl), n8), 0, 'chachao-keylen/%d' % kl)
        add('sc salsa 20 %s %s p.0.00' % (rng.data(kl), n8), 0, 'salsa-keylen/%d' % kl)
        add('sc xchacha 20 %s %s p.0.00' % (rng.data(kl), n24), 0, 'xchacha-keylen/%d' % kl)
        add('sc xsalsa 20 %s %s p.0.00' % (rng.data(kl), n24), 0, 'xsalsa-keylen/%d' % kl)
        add('aead_enc 20 %s %s - 00' % (rng.data(kl), n12), 0, 'aead-keylen/%d' % kl)
        add('aead_inc 20 %s %s a.00 E e.00 fin' % (rng.data(kl), n12), 0, 'aead-context-keylen/%d' % kl)
        add('mac poly1305 %s i.0.00 r.0' % rng.data(kl), 0, 'poly1305-keylen/%d' % kl)
    for nl in (0, 8, 11, 13, 16, 24):
        add('sc chacha 20 %s %s p.0.00' % (k32, rng.data(nl)), 0, 'chacha-noncelen/%d' % nl)
        add('aead_enc 20 %s %s - 00' % (k32, rng.data(nl)), 0, 'aead-noncelen/%d' % nl)
    for nl in (0, 7, 9, 12):
        add('sc chachao 20 %s %s p.0.00' % (k32, rng.data(nl)), 0, 'chachao-noncelen/%d' % nl)
        add('sc salsa 20 %s %s p.0.00' % (k32, rng.data(nl)), 0, 'salsa-noncelen/%d' % nl)
    for nl in (0, 12, 23, 25):
        add('sc xchacha 20 %s %s p.0.00' % (k32, rng.data(nl)), 0, 'xchacha-noncelen/%d' % nl)
        add('sc xsalsa 20 %s %s p.0.00' % (k32, rng.data(nl)), 0, 'xsalsa-noncelen/%d' % nl)
    for r in (0, 7, 10, 21):
        for v, key, nonce in (('chacha', k32, n12), ('chacha', k16, n12), ('xchacha', k32, n24), ('chachao', k32, n8), ('chachao', k16, n8), ('salsa', k32, n8), ('salsa', k16, n8), ('xsalsa', k32, n24)):
            add('sc %s %d %s %s p.0.00' % (v, r, key, nonce), 0, '%s-rounds/%d/k%d' % (v, r, spec_len(key)))
        if r != 10:
            add('aead_enc %d %s %s - 00' % (r, k32, n12), 0, 'aead-rounds/%d' % r)
            add('aead_inc %d %s %s a.00 E e.00 fin' % (r, k32, n12), 0, 'aead-context-rounds/%d' % r)
    for v, key, nonce in (('chacha', k32, n12), ('xchacha', k32, n24), ('chachao', k16, n8), ('salsa', k32, n8), ('xsalsa', k32, n24)):
        for n, ol in ((10, 9), (10, 11), (64, 63), (65, 66), (1, 0), (0, 1)):
            add('sc %s 20 %s %s p.0.%s.%d' % (v, key, nonce, rng.data(n), ol), 0, '%s-process-outlen/%d-%d' % (v, n, ol))
    for n, ol in ((10, 9), (10, 11), (0, 1), (64, 65)):
        add('aead_enc 20 %s %s %s %s %d' % (k32, n12, rng.data(5), rng.data(n), ol), 0, 'aead-encrypt-outlen/%d-%d' % (n, ol))
        add('aead_dec 20 %s %s %s %s %s %d' % (k32, n12, rng.data(5), rng.data(n), rng.data(16), ol), 0, 'aead-decrypt-outlen/%d-%d' % (n, ol))
        add('aead_inc 20 %s %s a.00 E e.%s.%d fin' % (k32, n12, rng.data(n), ol), 0, 'aead-inc-encrypt-outlen/%d-%d' % (n, ol))
        add('aead_inc 20 %s %s a.00 D d.%s.%d fin.%s' % (k32, n12, rng.data(n), ol, rng.data(16)), 0, 'aead-inc-decrypt-outlen/%d-%d' % (n, ol))
    for tl in (0, 1, 15, 17, 32):
        add('aead_enc 20 %s %s - %s 8 %d' % (k32, n12, rng.data(8), tl), 0, 'aead-encrypt-taglen/%d' % tl)
        add('aead_dec 20 %s %s - %s %s' % (k32, n12, rng.data(8), rng.data(tl)), 0, 'aead-decrypt-taglen/%d' % tl)
        if tl != 0:
            add('aead_inc 20 %s %s a.00 D d.00 fin.%s' % (k32, n12, rng.data(tl)), 1, 'aead-inc-taglen/%d' % tl)
    for a, b in (('e', 'e'), ('e', 'd'), ('d', 'e'), ('d', 'd')):
        add('aead_twice %s %s %s %s %s %s' % (k32, n12, rng.data(3), rng.data(20), a, b), 1, 'aead-oneshot-reuse/%s%s' % (a, b))
    # BLAKE2 parameters
    for bits in (0, 513, 520, 1024):
        add('b2bt %d - 00' % bits, 0, 'blake2b-bits/%d' % bits)
    for bits in (0, 257, 264, 512):
        add('b2st %d - 00' % bits, 0, 'blake2s-bits/%d' % bits)
    for ol in (0, 65, 128):
        add('b2b %d - 00' % ol, 0, 'blake2b-outlen/%d' % ol)
        add('b2b %d %s 00' % (ol, rng.data(8)), 0, 'blake2b-keyed-outlen/%d' % ol)
        add('b2blegacy %d - 00' % ol, 0, 'blake2b-legacy-outlen/%d' % ol)
        add('dig blake2b:%d i.0.00' % ol, 0, 'blake2b-digest-outlen/%d' % ol)
        add('mac b2bmac:%d %s i.0.00' % (ol, rng.data(8)), 0, 'blake2b-mac-outlen/%d' % ol)
    for ol in (0, 33, 64):
        add('b2s %d - 00' % ol, 0, 'blake2s-outlen/%d' % ol)
        add('b2s %d %s 00' % (ol, rng.data(8)), 0, 'blake2s-keyed-outlen/%d' % ol)
        add('b2slegacy %d - 00' % ol, 0, 'blake2s-legacy-outlen/%d' % ol)
        add('dig blake2s:%d i.0.00' % ol, 0, 'blake2s-digest-outlen/%d' % ol)
        add('mac b2smac:%d %s i.0.00' % (ol, rng.data(8)), 0, 'blake2s-mac-outlen/%d' % ol)
    for kl in (65, 66, 128):
        add('b2b 32 %s 00' % rng.data(kl), 0, 'blake2b-keylen/%d' % kl)
        add('b2bt 256 %s 00' % rng.data(kl), 0, 'blake2b-typed-keylen/%d' % kl)
        add('hh b2b/32/- k.0.%s F.0' % rng.data(kl), 0, 'blake2b-reset-keylen/%d' % kl)
        add('mac b2bmac:32 %s i.0.00' % rng.data(kl), 0, 'blake2b-mac-keylen/%d' % kl)
    for kl in (33, 34, 64, 65):
        add('b2s 32 %s 00' % rng.data(kl), 0, 'blake2s-keylen/%d' % kl)
        add('b2st 256 %s 00' % rng.data(kl), 0, 'blake2s-typed-keylen/%d' % kl)
        add('hh b2s/32/- k.0.%s F.0' % rng.data(kl), 0, 'blake2s-reset-keylen/%d' % kl)
        add('mac b2smac:32 %s i.0.00' % rng.data(kl), 0, 'blake2s-mac-keylen/%d' % kl)
    for n, bl in ((32, 31), (32, 33), (64, 0), (1, 2), (20, 64)):
        add('b2b_at %d - 00 %d' % (n, bl), 0, 'blake2b-finalize_at/%d-%d' % (n, bl))
        if n <= 32:
            add('b2s_at %d - 00 %d' % (n, bl), 0, 'blake2s-finalize_at/%d-%d' % (n, bl))
    # MAC / digest result buffers
    for n in (0, 1, 15):
        add('mac poly1305 %s i.0.00 rr.0.%d' % (k32, n), 0, 'poly1305-raw_result/%d' % n)
    for d, ol in (('sha256', 32), ('sha1', 20), ('sha512', 64), ('sha3_256', 32), ('blake2b:64', 64), ('ripemd160', 20)):
        for n in (0, ol - 1, ol + 1, 2 * ol):
            add('mac hmac:%s %s i.0.00 rr.0.%d' % (d, k16, n), 0, 'hmac-%s-raw_result/%d' % (d.split(':')[0], n))
            add('dig %s i.0.00 r.0.%d' % (d, n), 0, 'digest-%s-result/%d' % (d.split(':')[0], n))
    # KDFs
    for d, hl in (('sha256', 32), ('sha1', 20), ('sha512', 64)):
        for n in (0, hl - 1, hl + 1):
            add('hkdf_extract %s %s %s %d' % (d, rng.data(8), rng.data(8), n), 0, 'hkdf_extract-%s-prklen/%d' % (d, n))
        for L in (255 * hl + 1, 256 * hl, 256 * hl + 1, 1000 * hl):
            add('hkdf_expand %s %s %s %d' % (d, rng.data(hl), rng.data(3), L), 0, 'hkdf_expand-%s-overlimit/%d' % (d, L))
        add('pbkdf2 %s %s %s 0 %d' % (d, rng.data(8), rng.data(8), hl), 0, 'pbkdf2-%s-c0' % d)
    for ln, r, p, what in ((0, 1, 1, 'logn0'), (64, 8, 1, 'logn64'), (65, 8, 1, 'logn65'), (255, 8, 1, 'logn255'), (16, 1, 1, 'logn>=16r'), (32, 2, 1, 'logn>=16r'), (17, 1, 1, 'logn>=16r'),
                           (4, 0, 1, 'r0'), (4, 1, 0, 'p0'), (4, 1 << 15, 1 << 15, 'rp>=2^30'), (4, 1 << 30, 1, 'rp>=2^30'), (4, 1, 1 << 30, 'rp>=2^30'), (4, (1 << 32) - 1, 1, 'rmax'),
                           (63, (1 << 32) - 1, 1, 'overflow-nr128'), (40, 1 << 20, 1, 'overflow-nr128')):
        add('scrypt_params %d %d %d' % (ln, r, p), 0, 'scrypt-params/%s/%d-%d-%d' % (what, ln, r, p))
    add('scrypt %s %s 4 1 1 0' % (rng.data(4), rng.data(4)), 0, 'scrypt-empty-output')
    for ty in ('d', 'i', 'id'):
        for t, m, p, ver, what in ((1, 32, 0, 0x13, 'parallelism0'), (1, 32, 1 << 24, 0x13, 'parallelism2^24'), (1, 32, (1 << 32) - 1, 0x13, 'parallelism-max'), (0, 32, 1, 0x13, 'iterations0'),
                                   (1, 32, 1, 0x11, 'version0x11'), (1, 32, 1, 0, 'version0'), (1, 32, 1, 0x14, 'version0x14')):
            add('argon2_params %s 0x%x %d %d %d' % (ty, ver, t, m, p), 0, 'argon2%s-%s' % (ty, what))
            add('argon2 %s 0x%x %d %d %d 32 %s %s - - at' % (ty, ver, t, m, p, rng.data(8), rng.data(8)), 0, 'argon2%s-call-%s' % (ty, what))
    # constant-time slices of different length, x25519 wrappers
    for a, b in ((1, 2), (0, 1), (16, 15), (32, 33)):
        add('ct_slice %s %s' % (rng.data(a), rng.data(b)), 0, 'ct_eq-slice-len/%d-%d' % (a, b))
        add('ct_u64slice %s %s' % (rng.data(8 * a), rng.data(8 * b)), 2, 'ct_eq-u64slice-len/%d-%d' % (a, b))
    for which in ('sk', 'pk', 'ss'):
        for n in (0, 31, 33, 64):
            add('x_try %s %s' % (which, rng.data(n)), 0, 'x25519-%s-try_from/%d' % (which, n))
    return R_


REFUSALS = ('PANIC', 'TYPE', 'ERR')


def is_refusal(tok):
    return tok is not None and (tok in REFUSALS or tok.startswith('ERR:'))


# ------------------------------------------------------------------ run
def collect_sources(tier, seed):
    """[(source id, line)] of all quick workloads (quick generators also in thorough: the thorough tier adds seeds, counters and sanitizer depth)"""
    out = []
    for name in SOURCES:
        mod = R.load_prop(name)
        for l in mod.gen('quick', seed):
            if '#huge' in l:
                continue
            if l.startswith('x25519_iter') and ' 1 #' not in l:
                continue
            out.append((name, l))
    return out


def san_lines(sources, per_mod_cap):
    by = {}
    for name, l in sources:
        by.setdefault(name, []).append(l)
    out = []
    for name, ls in by.items():
        if not (name[:1] == 'c' and name[1:].isdigit()):
            out += ls[:per_mod_cap]          # C20's own extra lines (no owning module): all of them
            continue
        mod = R.load_prop(name)
        sub = mod.san_subset(ls) if hasattr(mod, 'san_subset') else []
        out += sub[:per_mod_cap]
    return out


def run(tier, seed, replay=None):
    thorough = tier == 'thorough'
    rep = R.Report(ID, tier, seed)
    rep.rule = RULE; rep.assumptions = list(ASSUMPTIONS)
    rng = Rng('C20', seed)
    wd = R.workdir(ID)
    if replay:
        lines = [l.rstrip('\n') for l in open(replay) if l.strip() and not l.startswith('#')]
        sources = [('replay', l) for l in lines if '#refuse/' not in l and '#counter/' not in l]
        counters = [l for l in lines if '#counter/' in l]
        refusals = [(l, 0) for l in lines if '#refuse/' in l]
        known = {l.split(' #')[0]: i for l, i in refusal_cases(Rng('C20', seed))}
        refusals = [(l, known.get(l.split(' #')[0], 0)) for l, _ in refusals]
    else:
        sources = collect_sources(tier, seed)
        if thorough:
            for extra_seed in (seed + 1000, seed + 2000):
                sources += [s for s in collect_sources(tier, extra_seed) if s[0] in ('c02', 'c03', 'c04', 'c05', 'c09', 'c15', 'c18')]
        # parameter values the API accepts (Ok) although they lie outside what the specification-conformance checks claim: whatever the
        # library makes of them, it must be the same bytes in every profile and must not panic (Argon2 memory below 8 blocks per lane
        # is documented as silently raised)
        for ty in ('d', 'i', 'id'):
            for m, p_ in ((1, 1), (7, 1), (8, 2), (15, 2), (16, 4), (31, 4), (4, 4), (20, 3), (0, 1)):
                for order in ('at', 'arr'):
                    sources.append(('c20-accepted-params', 'argon2 %s 0x13 %d %d %d 32 %s %s - - %s #accepted/argon2-m<8p' % (ty, rng.rng(1, 2), m, p_, rng.data(8), rng.data(8), order)))
            sources.append(('c20-accepted-params', 'argon2b %s 32 %s %s - - at m=16 p=4 #accepted/argon2-m<8p' % (ty, rng.data(8), rng.data(8))))
            sources.append(('c20-accepted-params', 'argon2b %s 32 %s %s - - at p=4 m=16 t=2 #accepted/argon2-m<8p' % (ty, rng.data(8), rng.data(8))))
        counters = list(counter_cases(rng, thorough))
        refusals = refusal_cases(rng)
    # every refusal probe is executed twice
    ref_lines = []
    for l, idx in refusals:
        ref_lines += [l, l]
    lines = [l for _, l in sources] + counters + ref_lines
    n_src, n_ctr = len(sources), len(counters)
    casefile = os.path.join(wd, 'cases-%s-%d.txt' % (tier, seed))
    R.write_cases(casefile, lines)
    bins = R.build_many(PROFILES)
    res = {}
    for c in PROFILES:
        r, crashes = R.run_driver(bins[c], casefile, len(lines), c, timeout=5400)
        nsh = max(1, min(R.NPROC, len(lines) // 50 + 1))
        for cr in crashes:
            i = R.crashed_line(len(lines), nsh, cr)
            rep.violations.append((c, i if i is not None else -1, 'C20:%s:process-died' % c, 'driver (%s profile) died rc=%s: %s' % (c, cr[1], cr[2][-300:].replace('\n', ' | ')), lines[i] if i is not None else '', None))
        res[c] = r
    rep.samples = R.sample_lines([l for _, l in sources], 4) + R.sample_lines(counters, 3) + R.sample_lines(ref_lines, 5)
    base = res['rel']
    classes = set()
    ndiff = 0
    # (a) profile differential over everything
    for i, l in enumerate(lines):
        a = base.get(i)
        classes.add(l[:200])
        for c in PROFILES[1:]:
            b = res[c].get(i)
            rep.evaluations += 1
            if a != b:
                ndiff += 1
                kind = 'panic-only-in-%s' % c if (b and 'PANIC' in b and not (a and 'PANIC' in a)) else ('panic-only-in-rel' if (a and 'PANIC' in a and not (b and 'PANIC' in b)) else 'value-differs')
                src = sources[i][0] if i < n_src else ('counter' if i < n_src + n_ctr else 'refusal')
                fam = l.split()[0]
                sig = 'C20:blake2-counter:profile-divergence' if src == 'counter' else 'C20:%s:%s:%s' % (src, fam, kind)
                rep.violations.append((c, i, sig, 'rel: %s | %s: %s' % (' '.join(a or ['<none>'])[:80], c, ' '.join(b or ['<none>'])[:80]), l, b))
        if i < n_src and a and 'PANIC' in a and sources[i][0] != 'c20-accepted-params':
            # a panic in the release build on a workload line: legitimate only where the owning property's model expects a refusal there
            # (input after result, over-limit KDF request, ...); otherwise the library failed to return normally on a valid input
            from ..dispatch import check_any
            try:
                bad = check_any(l, a)
            except Exception:
                bad = []
            if bad:
                rep.violations.append(('rel', i, 'C20:%s:%s:panic-on-valid-input' % (sources[i][0], l.split()[0]), 'release build panicked where the specification model expects a value: %s' % bad[0][1][:160], l, a))
        if i < n_src and sources[i][0] == 'c20-accepted-params' and (not a or 'PANIC' in a):
            rep.violations.append(('rel', i, 'C20:accepted-params:%s:panic' % l.split()[0], 'parameters accepted by the builder, then the operation panicked: %s' % ' '.join(a or ['<none>'])[:80], l, a))
    # (a') the same comparison at volume: bulk lines (cxv/bulk.py) - millions of curve / field / scalar / Poly1305 calls on derived inputs; an
    # arithmetic overflow that only the checked profiles trap, or a debug assertion on a legitimate value, shows as PANIC or as a different block hash
    from .. import bulk as B
    bplan = BULK['thorough' if thorough else 'quick']
    blines = []
    for n, (kind, count, block) in enumerate(bplan):
        per = max(block, (count // (R.NPROC * 2) // block) * block)
        st = 0
        while st < count:
            blines.append(B.line(kind, (seed * 1000 + 700 + n) % (1 << 31), st, min(per, count - st), block))
            st += per
    if replay:
        blines = [l for l in open(replay).read().splitlines() if l.startswith('bulk ')]
    bfile = os.path.join(wd, 'bulk-%s-%d.txt' % (tier, seed))
    R.write_cases(bfile, blines)
    bres = {}
    for c in PROFILES:
        if blines:
            bres[c], bcr = R.run_driver(bins[c], bfile, len(blines), 'bulk-' + c, nshards=min(R.NPROC, len(blines)), timeout=7200)
            for cr in bcr:
                rep.violations.append((c, -1, 'C20:%s:process-died' % c, 'driver (%s profile) died in the bulk phase rc=%s: %s' % (c, cr[1], cr[2][-300:].replace('\n', ' | ')), '', None))
    bulk_calls = 0
    for i, l in enumerate(blines):
        a = bres['rel'].get(i)
        f = l.split()
        bulk_calls += int(f[4])
        for c in PROFILES[1:]:
            b = bres[c].get(i)
            rep.evaluations += int(f[4])
            if a != b:
                ndiff += 1
                kind = 'panic-only-in-%s' % c if (b and 'PANIC' in b and not (a and 'PANIC' in a)) else ('panic-only-in-rel' if (a and 'PANIC' in a and not (b and 'PANIC' in b)) else 'value-differs')
                rep.violations.append((c, i, 'C20:bulk:%s:%s' % (f[1], kind), 'rel: %s | %s: %s' % (' '.join(a or ['<none>'])[:80], c, ' '.join(b or ['<none>'])[:80]), l, b))
        if a and 'PANIC' in a:
            rep.violations.append(('rel', i, 'C20:bulk:%s:panic-on-valid-input' % f[1], 'the release build panicked', l, a))
        classes.add(l)
    # (b) counters against the model (rel; the other profiles are tied to rel by (a))
    for j, l in enumerate(counters):
        i = n_src + j
        rep.evaluations += 1
        for sig, msg in check_counter(l, base.get(i) or []):
            rep.violations.append(('rel', i, sig, msg, l, base.get(i)))
        rep.coverage['counter:' + l.partition(' #')[2].split('/')[2]] = rep.coverage.get('counter:' + l.partition(' #')[2].split('/')[2], 0) + 1
    # (c) refusals
    kinds = {}
    for j, (l, idx) in enumerate(refusals):
        for rpt in (0, 1):
            i = n_src + n_ctr + 2 * j + rpt
            toks = base.get(i) or []
            rep.evaluations += 1
            what = l.partition(' #refuse/')[2]
            tok = toks[idx] if idx < len(toks) else (toks[-1] if toks else None)
            # a refusal may also come earlier than the probed step
            refused = any(is_refusal(t) for t in toks[:idx + 1])
            if not refused:
                rep.violations.append(('rel', i, 'C20:refusal:%s' % what.split('/')[0], 'invalid argument accepted: returned %s' % ' '.join(toks)[:120], l, toks))
            else:
                k = next(t for t in toks[:idx + 1] if is_refusal(t))
                kinds[k.split(':')[0]] = kinds.get(k.split(':')[0], 0) + 1
        if base.get(n_src + n_ctr + 2 * j) != base.get(n_src + n_ctr + 2 * j + 1):
            rep.violations.append(('rel', n_src + n_ctr + 2 * j, 'C20:refusal:non-deterministic', 'two executions differ', l, None))
    for k in classes:
        rep.classes[k] = 1
    extra = {'bulk_calls_per_profile': bulk_calls, 'profiles_compared': PROFILES, 'records_per_profile': len(lines), 'profile_differences': ndiff, 'workload_records': n_src, 'counter_records': n_ctr,
             'refusal_probes': len(refusals), 'refusal_kinds_observed': kinds}
    # (d) sanitizers
    sub = san_lines(sources, 400 if thorough else 120) + counters[::(1 if thorough else 3)] + [l for l, _ in refusals]
    sfile = os.path.join(wd, 'san-%s-%d.txt' % (tier, seed))
    R.write_cases(sfile, sub)
    sans = [S.memcheck(bins['rel'], sfile, len(sub), 'rel'), S.asan('asan', sfile, len(sub), 'asan')]
    msub = san_lines(sources, 60 if thorough else 14) + counters[::(6 if thorough else 25)] + [l for l, _ in refusals][::(1 if thorough else 3)]
    msub = [l for l in msub if not l.startswith(('scrypt ', 'argon2 ', 'x25519', 'ed_', 'ge_', 'pbkdf2')) or thorough and not l.startswith('scrypt ')]
    mfile = os.path.join(wd, 'miri-%s-%d.txt' % (tier, seed))
    R.write_cases(mfile, msub)
    sans.append(S.miri(mfile, len(msub), 'miri'))
    if thorough:
        sans.append(S.miri(mfile, len(msub), 'miri-f32', features='f32'))
        sans[-1]['tool'] = 'miri-f32'
    # the instrumented / interpreted executions must also RETURN what the native release binary returns for the same case lines
    nat_s, _ = R.run_driver(bins['rel'], sfile, len(sub), 'rel-san')
    nat_m, _ = R.run_driver(bins['rel'], mfile, len(msub), 'rel-miri')
    natives = {'memcheck': (nat_s, sub), 'asan': (nat_s, sub), 'miri': (nat_m, msub)}
    if thorough:
        nat_f, _ = R.run_driver(R.build('f32'), mfile, len(msub), 'f32-miri')
        natives['miri-f32'] = (nat_f, msub)
    extra['sanitizers'] = []
    inconcl = []
    for s in sans:
        nat, src_lines = natives[s['tool']]
        dn = S.differs_from_native(s, nat)
        for i, a, b in dn:
            rep.violations.append((s['tool'], i, 'C20:%s-vs-native:%s:value-differs' % (s['tool'], src_lines[i].split()[0]),
                                   'native: %s | under %s: %s' % (' '.join(a)[:80], s['tool'], ' '.join(b)[:80]), src_lines[i], b))
        extra['sanitizers'].append({'tool': s['tool'], 'ops_executed': s['ops_executed'], 'reports': len(s['reports']), 'inconclusive': s['inconclusive'],
                                    'report_kinds': sorted(set(r['kind'][:100] for r in s['reports']))[:10],
                                    'results_compared_with_native': sum(1 for i in s.get('results', {}) if i in nat), 'results_differing_from_native': len(dn)})
        rep.evaluations += s['ops_executed']
        if s['inconclusive']:
            inconcl.append('%s: %s' % (s['tool'], s['inconclusive']))
        for r in s['reports']:
            frame = r.get('crate_frame')
            if frame or 'crash' in r['kind']:
                where = (frame or 'unknown').split('::')[-1] if frame and '::' in frame else (frame or 'crash')
                rep.violations.append((s['tool'], r.get('line', -1), 'C20:sanitizer:%s:%s' % (s['tool'].split(':')[0], where), '%s at %s' % (r['kind'], frame), (sub[r['line']] if s['tool'].startswith('miri') and r.get('line') is not None and r['line'] < len(msub) and False else r['text'][:400].replace('\n', ' | ')), None))
    if inconcl:
        extra['sanitizer_notes'] = inconcl
        if any(s['ops_executed'] == 0 for s in sans):
            rep.write_evidence(extra, 0, inconclusive=True)
            print('INCONCLUSIVE property=C20 a sanitizer pass did not run: %s' % '; '.join(inconcl)[:500])
            return 2
    return rep.finish(None if replay else FLOORS, extra)   # a replay re-runs a handful of cases: no floors
