"""C04 - stream position semantics: chunking, involution, seek, clone, DRG."""
from ..codec import Rng, expand, spec_len
from ..streammodel import sc_model, drg_model
from .c03 import VARIANTS

ID = 'C04'
RULE = ('one record per history of {process, process_mut, seek/counter preset, clone, clone_from} on a cipher context or {bytes<N>, fill_bytes, fill_slice, '
        'u32, u64} on the DRG; model = (key, nonce, absolute byte position); every output must equal input XOR keystream[pos..pos+len] '
        '(DRG: keystream only, whatever the destination held); involution histories re-encrypt the oracle ciphertext; distinct = '
        '(variant, sequence of op kinds with offset/length classes); in-place calls also go through arbitrarily aligned sub-slices of one buffer')
ASSUMPTIONS = ['same keystream models as C03']
THOROUGH_ROUNDS = 40   # thorough tier: generator passes with derived seeds (runner.gen_rounds)
EXTRA_CFGS = ['f32']   # the workload is also executed by the force-32bits build of the library; results must not change (runner.standard_check)
FLOORS = {'evaluations': 2500, 'distinct': 1500,
          'coverage': {'pm:off=mid:len>+64rem': 10, 'p:off=63:len=rem': 3, 'seek:off=mid': 10, 'clone:off=mid': 10, 'clone_from:dst-off=0:src-off=mid': 3, 'clone_from:dst-off=mid:src-off=mid': 3, 'pms:short-piece-at-unaligned-address': 50,
                       'drg:fb:prior=nonzero:cross': 10, 'drg:fs:prior=nonzero:within': 10}}
NS = [0, 1, 3, 4, 7, 8, 16, 31, 32, 33, 63, 64, 65, 100, 127, 128, 129, 255]
LENS = [0, 1, 63, 64, 65, 100, 128, 129]


def history(rng, v, nsteps):
    klens, nl, bits, has_seek = VARIANTS[v]
    steps = []
    nobj = 1
    live = [0]
    pos = {0: 0}
    for _ in range(nsteps):
        ob = rng.choice(live)
        r = rng.below(100)
        if r < 70:
            off = pos[ob] % 64
            rem = (64 - off) % 64
            c = rng.below(10)
            if c < 5:
                ln = rng.choice(LENS)
            elif c == 5:
                ln = rem
            elif c == 6:
                ln = rem + 64
            elif c == 7:
                ln = max(0, rem - 1)
            elif c == 8:
                ln = rem + 1
            else:
                ln = rng.rng(0, 300)
            # steer towards offset 63
            if rng.below(12) == 0:
                ln = (63 - off) % 64
            steps.append('%s.%d.%s' % ('p' if rng.below(2) else 'pm', ob, rng.data(ln)))
            pos[ob] += ln
        elif r < 76:
            # one buffer processed in place through arbitrarily aligned sub-slices (short pieces included)
            n = rng.rng(1, 150)
            cuts, left = [], n
            while left > 0:
                c = min(left, rng.choice([1, 1, 2, 3, 4, 5, 6, 7, 8, 9, 16, 61, 64, 65]))
                cuts.append(c); left -= c
            steps.append('pms.%d.%s.%d.%s' % (ob, rng.data(n), rng.below(16), ','.join(map(str, cuts))))
            pos[ob] += n
        elif r < 85:
            n = rng.choice([0, 1, 2, 7, rng.below(1 << 20), (1 << 32) - 1, (1 << 32) - 2]) if bits == 32 else \
                rng.choice([0, 1, 5, 0xffffffff, (rng.below(1 << 32) << 32) | 0xffffffff, (1 << 64) - 1, rng.below(1 << 64)])
            if rng.below(3) == 0:
                # relative to where the context stands: the block it is in, its neighbours (the counter the engine holds is already one ahead of the cached block)
                n = (pos[ob] // 64 + rng.choice([0, 1, 1, 2, -1])) % (1 << bits)
            steps.append('%s.%d.%d' % ('s' if has_seek else 'S', ob, n))
            pos[ob] = 64 * n
        elif r < 90 and len(live) > 1:
            src = rng.choice([x for x in live if x != ob])
            steps.append('cf.%d.%d' % (ob, src)); pos[ob] = pos[src]       # ob.clone_from(&src)
        elif nobj < 4:
            steps.append('c.%d.%d' % (ob, nobj)); pos[nobj] = pos[ob]; live.append(nobj); nobj += 1
    return steps


def gen(tier, seed):
    rng = Rng('C04', seed)
    thorough = tier == 'thorough'
    nh = 600 if thorough else 90
    for v, (klens, nl, bits, has_seek) in VARIANTS.items():
        for rounds in (8, 12, 20):
            for _ in range(nh):
                kl = rng.choice(klens)
                yield 'sc %s %d %s %s %s' % (v, rounds, rng.data(kl), rng.data(nl) if rng.below(4) else rng.word_pattern(nl), ' '.join(history(rng, v, rng.rng(6, 40))))
            # partition equivalence + involution: the same message whole, bytewise-ish and in random pieces; then decrypt
            for _ in range(20 if thorough else 3):
                kl = rng.choice(klens); key, nonce = rng.data(kl), rng.data(nl)
                n = rng.rng(65, 400)
                msg = rng.data(n)
                yield 'sc %s %d %s %s p.0.%s' % (v, rounds, key, nonce, msg)
                m = expand(msg)
                cuts = sorted(set([0, n] + [rng.rng(0, n) for _ in range(rng.rng(1, 12))]))
                yield 'sc %s %d %s %s %s' % (v, rounds, key, nonce, ' '.join('%s.0.%s' % (rng.choice(['p', 'pm']), m[a:b].hex() or '-') for a, b in zip(cuts, cuts[1:])))
    # DRG
    for rounds in (8, 12, 20):
        for _ in range(1500 if thorough else 200):
            steps = []
            for _ in range(rng.rng(3, 25)):
                r = rng.below(10)
                if r < 3:
                    steps.append('b.%d' % rng.choice(NS))
                elif r < 6:
                    n = rng.choice(NS)
                    steps.append('fb.%s' % rng.choice(['=00:%d' % n if n else '-', '=ff:%d' % n if n else '-', rng.data(n)]))
                elif r < 8:
                    n = rng.choice(LENS + [rng.rng(0, 300)])
                    steps.append('fs.%s' % rng.choice(['=00:%d' % n if n else '-', '=a5:%d' % n if n else '-', rng.data(n)]))
                elif r == 8:
                    steps.append('u32')
                else:
                    steps.append('u64')
            yield 'drg %d %s %s' % (rounds, rng.data(32), ' '.join(steps))


def check(line, toks):
    if line.startswith('drg'):
        exp, _ = drg_model(line)
        sig = 'C04:drg:output-mismatch'
    else:
        exp, _ = sc_model(line)
        sig = 'C04:%s:position-mismatch' % line.split()[1]
    if toks != exp:
        i = 0
        while i < min(len(exp), len(toks)) and exp[i] == toks[i]:
            i += 1
        return [(sig, 'output #%d differs: expected %s.. got %s..' % (i, (exp[i] if i < len(exp) else '<none>')[:64], (toks[i] if i < len(toks) else '<none>')[:64]))]
    return []


def classify(line):
    f = line.split()
    if f[0] == 'drg':
        return ('drg', f[1], tuple(drg_model(line)[1]))
    return (f[1], f[2], tuple(sc_model(line)[1]))


def coverage(line, toks):
    return (drg_model(line) if line.startswith('drg') else sc_model(line))[1]


def san_subset(lines):
    rng = Rng('C04-san')
    return [l for l in lines if rng.below(15) == 0][:250]
