"""C11 - Argon2d/i/id equal RFC 9106 for all parameters and tag lengths."""
from ..codec import Rng, expand, spec_len
from .. import oracle as o

ID = 'C11'
RULE = ('one record per (type, version, t, m, p, T, pwd, salt, key, aad, entry point): tag must equal the RFC 9106 transcription; t 1..4, p 1..5, '
        'm from 8p to 256 (quick) / a few thousand (thorough) including m not divisible by 4p and segment lengths > 128, tag lengths 4..300 crossing '
        '64 and multiples of 32, empty and long inputs; directed parameter sets of Argon2i/id whose (parameter-only) pseudo-random J1 values fall within 2^16 of 0 or 2^32;  both argon2_at and argon2::<T>; Params values built by setter histories (any order, repeated setters, the same Params used for two derivations); the builder accepts the whole RFC range (m up to 2^32-1, p up to 2^24-1, t up to 2^32-1; no derivation); distinct = (type, version, t, m, p, T, api)')
ASSUMPTIONS = ['pure-Python RFC 9106 model pinned by the RFC section 5 vectors; BLAKE2b from hashlib']
FLOORS = {'evaluations': 250, 'distinct': 200, 'coverage': {'extreme-j1-low': 2, 'm%4p!=0:indep': 15, 'T>64:T%32==0': 10, 'version:0x10:t>1': 10, 'lanes>1': 40, 'builder:repeated-setter': 5, 'builder:p-after-m': 5, 'segment>128:i': 1, 'segment>128:id': 1}}
THOROUGH_ROUNDS = 8   # thorough tier: generator passes with derived seeds (runner.gen_rounds)
EXTRA_CFGS = ['f32']   # the workload is also executed by the force-32bits build of the library; results must not change (runner.standard_check)
ARR_T = [4, 5, 16, 31, 32, 33, 63, 64, 65, 95, 96, 97, 128, 160, 300]
TYPES = {'d': 0, 'i': 1, 'id': 2}


def case(rng, ty, ver, t, m, p, T, api, plen=None):
    pwd = rng.data(rng.choice([0, 1, 8, 32, 100]) if plen is None else plen)
    salt = rng.data(rng.choice([8, 16, 33]))
    key = rng.data(rng.choice([0, 0, 8, 32]))
    aad = rng.data(rng.choice([0, 0, 12, 50]))
    return 'argon2 %s 0x%x %d %d %d %d %s %s %s %s %s' % (ty, ver, t, m, p, T, pwd, salt, key, aad, api)


def extreme_j1_params(y, t, mrange, p=1):
    """Data-independent addressing depends on the parameters only: scan parameter sets whose pseudo-random J1 values come
    within 2^16 of 0 or 2^32 (where the reference-area mapping  area - 1 - (area * (J1^2 >> 32) >> 32)  sits on its rounding edges)."""
    zero = [0] * 128
    hits = []
    for m in mrange:
        mp = 4 * p * (m // (4 * p)); q = mp // p; SL = q // 4
        found = None
        for r in range(t):
            for sl in range(4):
                if y == 2 and not (r == 0 and sl < 2):
                    continue
                for lane in range(p):
                    for ctr in range(1, (SL + 127) // 128 + 1):
                        Z = [r, lane, sl, mp, t, y, ctr] + [0] * 121
                        addr = o.a2_G(zero, o.a2_G(zero, Z))
                        for idx in range((ctr - 1) * 128, min(SL, ctr * 128)):
                            if r == 0 and sl == 0 and idx < 2:
                                continue
                            j1 = addr[idx % 128] & 0xffffffff
                            if j1 < (1 << 16) or j1 >= (1 << 32) - (1 << 15):
                                found = 'low' if j1 < (1 << 16) else 'high'
        if found:
            hits.append((m, found))
    return hits


def gen(tier, seed):
    rng = Rng('C11', seed)
    thorough = tier == 'thorough'
    # RFC-shaped case and every compiled array length
    for ty in TYPES:
        for ver in (0x13, 0x10):
            yield 'argon2 %s 0x%x 3 32 4 32 =01:32 =02:16 =03:8 =04:12 at' % (ty, ver)
            for T in ARR_T:
                yield case(rng, ty, ver, rng.rng(1, 2), rng.choice([8, 9, 16, 23, 37]), 1, T, 'arr')
    # tag lengths via argon2_at: everything 4..=100 once, multiples of 32 and neighbours up to 300
    for T in list(range(4, 101)) + [127, 128, 129, 159, 160, 161, 191, 192, 193, 224, 256, 288, 299, 300]:
        ty = rng.choice(list(TYPES))
        yield case(rng, ty, rng.choice([0x13, 0x13, 0x10]), 1, rng.choice([8, 11, 16]), 1, T, 'at')
    # parameter grid
    n = 0
    for ty in TYPES:
        for ver in (0x13, 0x10):
            for t in (1, 2, 3, 4):
                for p in (1, 2, 3, 4, 5):
                    reps = 3 if thorough else 1
                    for _ in range(reps):
                        lo = 8 * p
                        m = rng.choice([lo, lo + 1, lo + rng.rng(1, 4 * p - 1), rng.rng(lo, 64), rng.rng(64, 256 if not thorough else 400), 4 * p * rng.rng(2, 8) + rng.rng(1, 4 * p - 1)])
                        T = rng.choice([4, 32, 32, 64, 65, 96, 100, 128])
                        yield case(rng, ty, ver, t, m, p, T, rng.choice(['at', 'at', 'arr']) if T in ARR_T else 'at')
    # directed: parameter sets of the data-independent variants that contain an extreme J1
    lo = 8 + (seed % 7)
    for y, ty in ((1, 'i'), (2, 'id')):
        for t in ((1, 2) if thorough else (1,)):
            hits = extreme_j1_params(y, t, range(lo, 900 if thorough else 420, 1 if ty == 'i' else 2))
            for m, kind in hits[:40 if thorough else 12]:
                yield case(rng, ty, 0x13, t, m, 1, 32, 'at', plen=8) + ' #extreme-j1-' + kind
                yield case(rng, ty, 0x10, t, m, 1, 16, 'at', plen=0) + ' #extreme-j1-' + kind
    if thorough:
        # segment length > 128 -> address block refresh for the data-independent variants
        for ty in ('i', 'id', 'd'):
            for ver in (0x13, 0x10):
                for m, p in ((516, 1), (600, 1), (700, 1), (1100, 2), (1150, 3), (1600, 3)):
                    yield case(rng, ty, ver, rng.rng(1, 2), m + rng.rng(0, 3), p, 32, 'at')
        yield case(rng, 'id', 0x13, 1, 4096, 1, 64, 'at')
        yield case(rng, 'i', 0x13, 2, 2100, 4, 33, 'at')
    else:
        # segment length > 128 (address-block refresh of the data-independent variants): m >= 516 p
        for ty in ('i', 'id', 'd'):
            for ver, m, p in ((0x13, 516 + rng.rng(0, 40), 1), (0x10, 520 + rng.rng(0, 100), 1), (0x13, 1040 + rng.rng(0, 30), 2)):
                yield case(rng, ty, ver, 2 if m < 600 else 1, m, p, 32, 'at')
    # volume for the data-DEPENDENT addressing (Argon2d, second half of Argon2id): J1 is pseudo-random per block, so the rounding edges of
    # the reference-area mapping (J1 within 2^16 of 0 or 2^32) are reached about once per 2^15 blocks
    for _ in range(3000 if thorough else 500):
        p_ = rng.choice([1, 1, 2, 4])
        m = rng.rng(8 * p_, 8 * p_ + 200)
        yield case(rng, rng.choice(['d', 'd', 'id']), rng.choice([0x13, 0x13, 0x10]), rng.rng(1, 3), m, p_, 32, 'at', plen=8) + ' #volume-data-dependent'
    # Params built by setter histories: setters in any order, some called several times; every intermediate state stays inside
    # the documented domain (m >= 8 p), so the final values alone determine the function
    for _ in range(160 if thorough else 40):
        m, p_, t, v = 32, 1, 1, 0x13
        seq = []
        for _ in range(rng.rng(2, 7)):
            k = rng.choice(['p', 'p', 'm', 'm', 't', 'v'])
            if k == 'p':
                np_ = rng.rng(1, 5)
                if m < 8 * np_:
                    continue
                p_ = np_; seq.append('p=%d' % p_)
            elif k == 'm':
                m = rng.choice([8 * p_, 8 * p_ + rng.rng(1, 9), rng.rng(8 * p_, 8 * p_ + 60), 4 * p_ * rng.rng(2, 12) + rng.rng(1, 4 * p_ - 1) if p_ > 1 else rng.rng(8, 90)])
                seq.append('m=%d' % m)
            elif k == 't':
                t = rng.rng(1, 3); seq.append('t=%d' % t)
            else:
                v = rng.choice([0x10, 0x13]); seq.append('v=0x%x' % v)
        if not seq:
            continue
        T = rng.choice([4, 16, 32, 33, 64, 65, 96, 128])
        yield 'argon2b %s %d %s %s %s %s %s %s' % (rng.choice(list(TYPES)), T, rng.data(rng.choice([0, 8, 32])), rng.data(rng.choice([8, 16])), rng.data(rng.choice([0, 8])), rng.data(rng.choice([0, 12])),
                                                    rng.choice(['at', 'arr']), ' '.join(seq))

    # RFC 9106 maps J1 into the reference area with TWO truncations (x = J1^2 >> 32; y = |W| * x >> 32).  For data-independent
    # addressing J1 depends on the parameters only; these sets (found by scanning m' = 4096..12000, t = 1, p = 1 with the address
    # generator alone) contain a position where a single widening multiplication (|W| * J1^2 >> 64) picks a different block:
    # Argon2i m' = 6608 (pass 0, slice 3, index 308, |W| = 5263, J1 = 3375605307), Argon2id m' = 5868 (slice 0, index 1010, J1 = 689447105)
    for ty, t, m, p_ in (('i', 1, 6608, 1), ('id', 1, 5868, 1)) + ((('i', 1, 7172, 1), ('i', 1, 8724, 1)) if thorough else ()):
        yield case(rng, ty, 0x13, t, m, p_, 32, 'at', plen=8) + ' #double-truncation-sensitive'
    # the whole RFC 9106 parameter range is accepted by the builder (m up to 2^32-1 KiB, p up to 2^24-1, t up to 2^32-1), in either
    # setter order; nothing is allocated here, only the Params value is built
    MS = [8, 1 << 16, (1 << 20) + 3, (1 << 22) - 1, 1 << 22, (1 << 22) + 1, 1 << 24, (1 << 31) - 1, 1 << 31, (1 << 32) - 1]
    PS = [1, 2, 3, 255, 256, 65535, 65536, (1 << 24) - 1]
    for ty in TYPES:
        for m in MS:
            for p_ in PS:
                if (MS.index(m) + PS.index(p_) + list(TYPES).index(ty)) % 3 and not thorough:
                    continue
                t = rng.choice([1, 3, 1 << 16, 1 << 31, (1 << 32) - 1])
                v = rng.choice([0x10, 0x13])
                order = rng.choice([('m', 'p', 't', 'v'), ('p', 'm', 't', 'v'), ('t', 'v', 'p', 'm'), ('v', 'm', 't', 'p')])
                val = {'m': 'm=%d' % m, 'p': 'p=%d' % p_, 't': 't=%d' % t, 'v': 'v=0x%x' % v}
                yield 'argon2_accept %s %s #accept' % (ty, ' '.join(val[k] for k in order))


def final_params(setters):
    m, p, t, v = 32, 1, 1, 0x13        # documented defaults of Params::argon2{d,i,id}()
    for s in setters:
        k, val = s[:1], int(s[2:], 0)
        if k == 'p':
            p = val
        elif k == 'm':
            m = val
        elif k == 't':
            t = val
        else:
            v = val
        assert m >= 8 * p, 'generator left the documented domain'
    return m, p, t, v


def check(line, toks):
    f = line.split(' #')[0].split()
    if f[0] == 'argon2_accept':
        if toks != ['OK']:
            return [('C11:argon2%s:rfc-valid-parameters-refused' % f[1], 'setters %s: %s' % (' '.join(f[2:]), ' '.join(toks)[:60]))]
        return []
    if f[0] == 'argon2b':
        m, p, t, v = final_params(f[8:])
        exp = o.argon2(TYPES[f[1]], v, t, m, p, int(f[2]), expand(f[3]), expand(f[4]), expand(f[5]), expand(f[6])).hex()
        if toks != [exp, exp]:
            return [('C11:argon2%s:builder-history-tag-mismatch' % f[1], 'setters %s (final v=%x t=%d m=%d p=%d) T=%s api=%s expected %s.. got %s' % (' '.join(f[8:]), v, t, m, p, f[2], f[7], exp[:32], ' '.join(x[:32] for x in toks)))]
        return []
    ty, ver, t, m, p, T = f[1], int(f[2], 16), int(f[3]), int(f[4]), int(f[5]), int(f[6])
    exp = o.argon2(TYPES[ty], ver, t, m, p, T, expand(f[7]), expand(f[8]), expand(f[9]), expand(f[10])).hex()
    if toks != [exp]:
        return [('C11:argon2%s:tag-mismatch' % ty, 'v=%x t=%d m=%d p=%d T=%d api=%s expected %s.. got %s..' % (ver, t, m, p, T, f[11], exp[:32], ' '.join(toks)[:32]))]
    return []


def classify(line):
    f = line.split(' #')[0].split()
    if f[0] == 'argon2_accept':
        return ('accept',) + tuple(f[1:])
    if f[0] == 'argon2b':
        return ('builder', f[1], f[2], f[7]) + tuple(f[8:])
    return tuple(f[1:7]) + (f[11],)


def coverage(line, toks):
    body, _, ann = line.partition(' #')
    f = body.split()
    if ann.startswith('extreme'):
        return [ann]
    if f[0] == 'argon2_accept':
        return ['builder:rfc-range-accepted' if toks == ['OK'] else 'builder:rfc-range-refused']
    if f[0] == 'argon2b':
        ks = [x[0] for x in f[8:]]
        return ['builder-history', 'builder:repeated-setter' if len(set(ks)) < len(ks) else 'builder:each-setter-once',
                'builder:p-after-m' if 'm' in ks and 'p' in ks[ks.index('m'):] else 'builder:other-order']
    ty, ver, t, m, p, T = f[1], int(f[2], 16), int(f[3]), int(f[4]), int(f[5]), int(f[6])
    out = ['type:%s' % ty, 'version:0x%x' % ver, 'api:%s' % f[11]]
    if m % (4 * p):
        out.append('m%4p!=0:' + ('indep' if ty != 'd' else 'dep'))
    if T > 64:
        out.append('T>64:T%%32%s0' % ('==' if T % 32 == 0 else '!='))
    else:
        out.append('T<=64')
    if ver == 0x10 and t > 1:
        out.append('version:0x10:t>1')
    if p > 1:
        out.append('lanes>1')
    if (m // (4 * p)) > 128:
        out.append('segment>128:%s' % ty)
    if ann:
        out.append(ann)
    return out


def san_subset(lines):
    out = []
    for l in lines:
        f = l.split()
        if f[0] in ('argon2b', 'argon2_accept'):
            continue
        if int(f[4]) <= 24 and int(f[3]) <= 2:
            out.append(l)
    return out[:40]
