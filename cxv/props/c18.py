"""C18 - constant-time predicates and selectors return the ordinary answer."""
from ..codec import Rng, expand, spec_len
from .. import oracle as o

NROUTES = 16   # Choice production routes compiled into the driver (harness/src/ct.rs mkroute)

ID = 'C18'
RULE = ('truth tables: exhaustive 2^16 byte pairs for ct_eq/ct_ne and all 256 bytes for ct_zero/ct_nonzero (bitmaps); all pairs over a 64-bit boundary set plus random for the '
        'eight u64 predicates; byte arrays N = 0..=40 equal / differing in exactly one position (every position, both directions) plus borrow-rippling patterns for ct_lt/ct_ge '
        '(big-endian order); slices and u64 arrays likewise; Choice algebra, CtOption and the selectors for Choices produced along 16 routes (from a test, negated, double negated, from integer / array / slice comparisons, from and/or/xor); masked swap/set of u64 and i32 limb arrays (hook) for both choices; MacResult / Tag '
        'equality incl. unequal lengths and codes of 65..1000 bytes; byte arrays and Tags stored at every pair of byte offsets 0..7 / 0..15 of aligned buffers; distinct = (helper, operand pattern)')
ASSUMPTIONS = ["Python's ==, <, <=, >, >= on integers and bytes"]
FLOORS = {'evaluations': 8000, 'distinct': 6000}
THOROUGH_ROUNDS = 300   # thorough tier: generator passes with derived seeds (runner.gen_rounds)
EXTRA_CFGS = ['f32']   # the workload is also executed by the force-32bits build of the library; results must not change (runner.standard_check)
EXHAUSTIVE = False
B64 = [0, 1, 2, 0x100000001, 0xfffffffeffffffff, 0x0000000100000000, 0xdeadbeefdeadbeef, (1 << 31) - 1, 1 << 31, (1 << 32) - 1, 1 << 32, (1 << 32) + 1, (1 << 63) - 1, 1 << 63, (1 << 63) + 1, (1 << 64) - 2, (1 << 64) - 1, 0x8000000080000000, 0x7fffffff7fffffff]


def gen(tier, seed):
    rng = Rng('C18', seed)
    thorough = tier == 'thorough'
    for fn in ('eq', 'ne', 'zero', 'nonzero'):
        yield 'ct_u8_table %s #table' % fn
    vals = B64 + [rng.below(1 << 64) for _ in range(200 if thorough else 40)]
    for a in vals:
        for b in vals:
            yield 'ct_u64 %d %d #u64' % (a, b)
    for n in range(0, 41):
        base = rng.bytes(n)
        yield 'ct_arr %s %s #arr-equal' % (base.hex() or '-', base.hex() or '-')
        yield 'ct_arr %s %s #arr-zero' % (bytes(n).hex() or '-', bytes(n).hex() or '-')
        for pos in range(n):
            for delta in (1, 0x80, 0xff):
                x = bytearray(base); x[pos] = (x[pos] + delta) & 0xff
                yield 'ct_arr %s %s #arr-onepos' % (base.hex(), bytes(x).hex())
                yield 'ct_arr %s %s #arr-onepos' % (bytes(x).hex(), base.hex())
            z = bytearray(n); z[pos] = rng.rng(1, 255)
            yield 'ct_arr %s %s #arr-zero-onepos' % (bytes(z).hex(), bytes(n).hex())
            # borrow rippling through zero / ff bytes: a = 0..0 1 0..0 vs b = 0..0 0 ff..ff  and a = x 00 00 vs x-1 ff ff
            a = bytearray(n); b = bytearray(n)
            a[pos] = 1
            for j in range(pos + 1, n):
                b[j] = 0xff
            yield 'ct_arr %s %s #arr-borrow' % (bytes(a).hex(), bytes(b).hex())
            yield 'ct_arr %s %s #arr-borrow' % (bytes(b).hex(), bytes(a).hex())
            a = bytearray(n); b = bytearray(n); b[n - 1] = 1
            yield 'ct_arr %s %s #arr-borrow' % (bytes(a).hex(), bytes(b).hex())
        for _ in range(6):
            yield 'ct_arr %s %s #arr-random' % (rng.bytes(n).hex() or '-', rng.bytes(n).hex() or '-')
        if n >= 2:
            for _ in range(4):
                i, j = rng.below(n), rng.below(n)
                if i == j:
                    continue
                d = rng.rng(1, 255)
                x = bytearray(base); x[i] ^= d; x[j] ^= d
                yield 'ct_arr %s %s #arr-cancelling' % (base.hex(), bytes(x).hex())
                x = bytearray(base); x[i] = (x[i] + d) & 255; x[j] = (x[j] - d) & 255
                yield 'ct_arr %s %s #arr-cancelling' % (base.hex(), bytes(x).hex())
                x = bytearray(base); x[i], x[j] = x[j], x[i]
                yield 'ct_arr %s %s #arr-cancelling' % (base.hex(), bytes(x).hex())
                yield 'ct_slice %s %s #slice-cancelling' % (base.hex(), bytes(x).hex())
            yield 'ct_arr %s %s #arr-cancelling' % ('ff' * n, '00' * n)
    for n in list(range(0, 41)) + [64, 100, 257]:
        base = rng.bytes(n)
        yield 'ct_slice %s %s #slice-equal' % (base.hex() or '-', base.hex() or '-')
        for pos in ([0, n // 2, n - 1] if n > 40 else range(n)):
            x = bytearray(base); x[pos] ^= 1 << rng.below(8)
            yield 'ct_slice %s %s #slice-onepos' % (base.hex(), bytes(x).hex())
    yield 'ct_slice 0102 010203 #slice-lendiff'
    yield 'ct_slice 010203 0102 #slice-lendiff'
    yield 'ct_slice - 00 #slice-lendiff'
    for n in (0, 1, 2, 5):
        base = rng.bytes(8 * n)
        yield 'ct_u64slice %s %s #u64slice-lendiff' % (base.hex() or '-', (base + rng.bytes(8)).hex())
        yield 'ct_u64slice %s %s #u64slice-lendiff' % ((base + bytes(8)).hex(), base.hex() or '-')
        yield 'ct_slice %s %s #slice-lendiff' % (base.hex() or '-', (base + b'\x00').hex())
    for n in range(0, 41 if thorough else 13):
        base = rng.bytes(8 * n)
        for op in ('ct_u64arr', 'ct_u64slice'):
            yield '%s %s %s #u64arr-equal' % (op, base.hex() or '-', base.hex() or '-')
            yield '%s %s %s #u64arr-zero' % (op, bytes(8 * n).hex() or '-', bytes(8 * n).hex() or '-')
            for pos in range(n):
                x = bytearray(base); x[8 * pos + rng.below(8)] ^= 1 << rng.below(8)
                yield '%s %s %s #u64arr-onepos' % (op, base.hex(), bytes(x).hex())
                z = bytearray(8 * n); z[8 * pos + 7] = 0x80
                yield '%s %s %s #u64arr-zero-onepos' % (op, bytes(z).hex(), bytes(8 * n).hex())
            if n >= 2:
                # differences in several limbs that cancel each other (under XOR, under addition): two limbs exchanged, the same
                # delta in two limbs, three deltas with d0^d1^d2 == 0, all-ones against all-zeros
                w = [int.from_bytes(base[8 * i:8 * i + 8], 'little') for i in range(n)]
                enc = lambda ws: b''.join((x & ((1 << 64) - 1)).to_bytes(8, 'little') for x in ws).hex()
                for _ in range(3):
                    i, j = rng.below(n), rng.below(n)
                    if i == j:
                        continue
                    x = list(w); x[i], x[j] = x[j], x[i]
                    yield '%s %s %s #u64arr-cancelling' % (op, enc(w), enc(x))
                    d = rng.below(1 << 64) | 1
                    x = list(w); x[i] ^= d; x[j] ^= d
                    yield '%s %s %s #u64arr-cancelling' % (op, enc(w), enc(x))
                    x = list(w); x[i] += d; x[j] -= d
                    yield '%s %s %s #u64arr-cancelling' % (op, enc(w), enc(x))
                    if n >= 3:
                        k = next(t for t in range(n) if t not in (i, j))
                        d2 = rng.below(1 << 64)
                        x = list(w); x[i] ^= d; x[j] ^= d2; x[k] ^= d ^ d2
                        yield '%s %s %s #u64arr-cancelling' % (op, enc(w), enc(x))
                yield '%s %s %s #u64arr-cancelling' % (op, 'ff' * (8 * n), '00' * (8 * n))
    # a Choice is also produced by negation, by array / slice / integer comparisons and by the algebra ("routes" 1..15 of the driver):
    # every consumer must treat it like the plain one
    routes = ['%s' % a if k == 0 else '%sr%d' % (a, k) for a in '01' for k in range(NROUTES)]
    for a in routes:
        for b in routes:
            yield 'choice %s %s #choice' % (a, b)
    for a in routes:
        yield 'ctopt %s %s #ctopt' % (a, rng.bytes(5).hex())
        for n in ((0, 1, 4, 5, 10, 16, 40) if len(a) == 1 else (5, 10)):
            x, y = rng.bytes(8 * n), rng.bytes(8 * n)
            yield 'swap64 %s %s %s #swap' % (a, x.hex() or '-', y.hex() or '-')
            yield 'set64 %s %s %s #swap' % (a, x.hex() or '-', y.hex() or '-')
            yield 'swap64 %s %s %s #swap' % (a, (b'\xff' * 8 * n).hex() or '-', bytes(8 * n).hex() or '-')
            x, y = rng.bytes(4 * n), rng.bytes(4 * n)
            yield 'swap32 %s %s %s #swap' % (a, x.hex() or '-', y.hex() or '-')
            yield 'set32 %s %s %s #swap' % (a, x.hex() or '-', y.hex() or '-')
            yield 'set32 %s %s %s #swap' % (a, (b'\xff' * 4 * n).hex() or '-', (b'\x00\x00\x00\x80' * n).hex() or '-')
    for n in (0, 1, 16, 20, 28, 32, 33, 48, 64):
        t = rng.bytes(n)
        yield 'macres_eq %s %s #macres-equal' % (t.hex() or '-', t.hex() or '-')
        for pos in range(n):
            x = bytearray(t); x[pos] ^= 1 << rng.below(8)
            yield 'macres_eq %s %s #macres-onepos' % (t.hex(), bytes(x).hex())
        if n:
            yield 'macres_eq %s %s #macres-lendiff' % (t.hex(), t[:-1].hex() or '-')
            yield 'macres_eq %s %s #macres-lendiff' % (t.hex(), (t + b'\0').hex())
            yield 'macres_eq %s %s #macres-lendiff' % (t[:-1].hex() or '-', t.hex())
    # codes longer than any MAC of the crate (MacResult accepts any length): equal, and differing in one byte at every position class
    for n in (65, 66, 100, 128, 129, 255, 256, 257, 300, 1000):
        t = rng.bytes(n)
        yield 'macres_eq %s %s #macres-long-equal' % (t.hex(), t.hex())
        for pos in sorted(set([0, 1, 31, 32, 63, 64, 65, n // 2, n - 2, n - 1] + [rng.below(n) for _ in range(6)])):
            if pos < n:
                x = bytearray(t); x[pos] ^= 1 << rng.below(8)
                yield 'macres_eq %s %s #macres-long-onepos' % (t.hex(), bytes(x).hex())
    for n, d in ((0, 256), (1, 256), (16, 256), (32, 256), (32, 512), (20, 768), (64, 65536), (0, 65536)):
        t = rng.bytes(n)
        for tail in (bytes(d), rng.bytes(d)):
            yield 'macres_eq %s %s #macres-lendiff256' % (t.hex() or '-', (t + tail).hex())
            yield 'macres_eq %s %s #macres-lendiff256' % ((t + tail).hex(), t.hex() or '-')
    # operand placement: the two arrays / tags live at every combination of byte offsets (the answer must not depend on where the
    # caller keeps them: word-at-a-time comparisons split both operands by alignment)
    for n in (1, 7, 8, 9, 15, 16, 17, 24, 31, 32, 33, 40):
        base = rng.bytes(n)
        for oa in range(8):
            for ob in range(8):
                yield 'ct_arr_at %s %s %d %d #arr-placed-equal' % (base.hex(), base.hex(), oa, ob)
                x = bytearray(base); x[rng.below(n)] ^= 1 << rng.below(8)
                yield 'ct_arr_at %s %s %d %d #arr-placed-onepos' % (base.hex(), bytes(x).hex(), oa, ob)
                if (oa + ob) % 3 == 0:
                    x = bytearray(base); x[n - 1] ^= 0x80
                    yield 'ct_arr_at %s %s %d %d #arr-placed-last' % (bytes(x).hex(), base.hex(), oa + 8 * rng.below(3), ob + 8 * rng.below(3))
                    x = bytearray(base); x[0] ^= 1
                    yield 'ct_arr_at %s %s %d %d #arr-placed-first' % (base.hex(), bytes(x).hex(), oa + 8 * rng.below(3), ob + 8 * rng.below(3))
    t = rng.bytes(16)
    for oa in range(16):
        for ob in range(16):
            yield 'tag_eq_at %s %s %d %d #tag-placed-equal' % (t.hex(), t.hex(), oa, ob)
            x = bytearray(t); x[rng.below(16)] ^= 1 << rng.below(8)
            yield 'tag_eq_at %s %s %d %d #tag-placed-onebit' % (t.hex(), bytes(x).hex(), oa, ob)
    for _ in range(4):
        t = rng.bytes(16)
        yield 'tag_eq %s %s #tag-equal' % (t.hex(), t.hex())
        for pos in range(16):
            for bit in range(8):
                x = bytearray(t); x[pos] ^= 1 << bit
                yield 'tag_eq %s %s #tag-onebit' % (t.hex(), bytes(x).hex())
        for _ in range(20):
            i, j = rng.below(16), rng.below(16)
            if i != j:
                x = bytearray(t); v = rng.rng(1, 255); x[i] ^= v; x[j] ^= v
                yield 'tag_eq %s %s #tag-twobytes' % (t.hex(), bytes(x).hex())


def T(b):
    return 'T' if b else 'F'


def u64s(b):
    return [int.from_bytes(b[i:i + 8], 'little') for i in range(0, len(b), 8)]


def expected(f):
    op = f[0]
    if op == 'ct_u8_table':
        fn = f[1]
        if fn in ('eq', 'ne'):
            bits = bytearray(8192)
            for x in range(256):
                for y in range(256):
                    if (x == y) == (fn == 'eq'):
                        i = x * 256 + y; bits[i // 8] |= 1 << (i % 8)
        else:
            bits = bytearray(32)
            for x in range(256):
                if (x == 0) == (fn == 'zero'):
                    bits[x // 8] |= 1 << (x % 8)
        return [bytes(bits).hex()]
    if op == 'ct_u64':
        a, b = int(f[1]), int(f[2])
        return [T(a == 0), T(a != 0), T(a == b), T(a != b), T(a < b), T(a > b), T(a <= b), T(a >= b)]
    if op in ('ct_arr', 'ct_arr_at'):
        a, b = expand(f[1]), expand(f[2])
        z = not any(a)
        return [T(z), T(not z), T(a == b), T(a != b), T(a < b), T(a >= b)]   # bytes compare lexicographically == big-endian for equal lengths
    if op == 'ct_slice':
        a, b = expand(f[1]), expand(f[2])
        if len(a) != len(b):
            return ['PANIC']
        return [T(a == b), T(a != b)]
    if op in ('ct_u64arr', 'ct_u64slice'):
        a, b = u64s(expand(f[1])), u64s(expand(f[2]))
        if len(a) != len(b):
            return ['PANIC']          # slices of different length: documented refusal (never "equal because one is a prefix of the other")
        z = not any(a)
        return [T(z), T(not z), T(a == b), T(a != b)]
    if op == 'choice':
        a, b = f[1][0] == '1', f[2][0] == '1'
        return [T(a and b), T(a or b), T(a != b), T(not a), T(a), T(b)]
    if op == 'ctopt':
        return ['SOME:' + f[2] if f[1][0] == '1' else 'NONE']
    if op in ('swap64', 'swap32'):
        return [f[3], f[2]] if f[1][0] == '1' else [f[2], f[3]]
    if op in ('set64', 'set32'):
        return [f[3], f[3]] if f[1][0] == '1' else [f[2], f[3]]
    if op == 'macres_eq':
        e = expand(f[1]) == expand(f[2])
        return [T(e), T(e), T(not e)]
    if op in ('tag_eq', 'tag_eq_at'):
        e = expand(f[1]) == expand(f[2])
        return [T(e), T(e), T(e), T(not e)]
    raise KeyError(op)


NAMES = {'ct_u64': ['ct_zero', 'ct_nonzero', 'ct_eq', 'ct_ne', 'ct_lt', 'ct_gt', 'ct_le', 'ct_ge'],
         'ct_arr': ['ct_zero', 'ct_nonzero', 'ct_eq', 'ct_ne', 'ct_lt', 'ct_ge'],
         'ct_arr_at': ['ct_zero', 'ct_nonzero', 'ct_eq', 'ct_ne', 'ct_lt', 'ct_ge']}


def check(line, toks):
    body, _, cls = line.partition(' #')
    f = body.split()
    exp = expected(f)
    if toks == exp:
        return []
    bad = [i for i in range(max(len(exp), len(toks))) if i >= len(exp) or i >= len(toks) or exp[i] != toks[i]]
    names = NAMES.get(f[0])
    which = ','.join(names[i] if names and i < len(names) else '#%d' % i for i in bad)
    sig = 'C18:%s:%s' % (f[0], which if names else 'wrong-answer')
    return [(sig, '%s %s: expected %s got %s' % (cls, ' '.join(f[1:])[:100], ' '.join(exp)[:80], ' '.join(toks)[:80]))]


def classify(line):
    return line[:300]


def coverage(line, toks):
    return [line.partition(' #')[2]]


def extra_coverage(lines, results):
    return {'exhaustive_subspaces': ['u8 ct_eq/ct_ne over all 65536 pairs', 'u8 ct_zero/ct_nonzero over all 256 values', 'Choice and/or/xor/negate over all 4 pairs']}


def san_subset(lines):
    rng = Rng('C18-san')
    return [l for l in lines if not l.startswith('ct_u8_table eq') and not l.startswith('ct_u8_table ne') and rng.below(80) == 0][:150]
