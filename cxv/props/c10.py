"""C10 - HKDF, PBKDF2 and scrypt derive exactly the keys their RFCs define."""
from ..codec import Rng, expand, spec_len
from .. import oracle as o

ID = 'C10'
RULE = ('one record per KDF call: HKDF-Extract/Expand over SHA-1/256/512/SHA3-256 with L in {0,1,HL-1,HL,HL+1,2HL+1,255HL-1,255HL} must equal RFC 5869 and '
        'L in {255HL+1, 256HL, 256HL+1, 300HL} must be refused (PANIC); PBKDF2 over HMAC-SHA1/256/512, HMAC over truncated BLAKE2 and keyed BLAKE2 itself (PRF output lengths 1..64, not multiples of 4) with c in {1,2,3,4,5,10,100,(4096)} and dkLen '
        'across block boundaries, every salt / password / IKM / info length 0..140, and outputs of 2^26..2^28 bytes (CRC-32 and both ends compared); scrypt at N = 2^17 and over the grid log2N 1..10 x r 1..8 x p 1..4 with dkLen 1..130 (quick: Latin-square quarter); '
        'HKDF is also handed digest objects that already absorbed data or were finalised; every output buffer is pre-filled with a non-zero pattern by the driver; distinct = (function, digest/params, length class)')
ASSUMPTIONS = ['hashlib.pbkdf2_hmac / hashlib.scrypt (OpenSSL) and own RFC transcriptions pinned by RFC 5869/6070/7914 vectors']
FLOORS = {'evaluations': 400, 'distinct': 300}
THOROUGH_ROUNDS = 40   # thorough tier: generator passes with derived seeds (runner.gen_rounds)
EXTRA_CFGS = ['f32']   # the workload is also executed by the force-32bits build of the library; results must not change (runner.standard_check)


def gen(tier, seed):
    rng = Rng('C10', seed)
    thorough = tier == 'thorough'
    for d in ('sha1', 'sha256', 'sha512', 'sha3_256', 'sha224', 'ripemd160'):
        hl = o.digest_fn(d)[2]
        for sl in (0, 1, hl, 100):
            for il in (0, 1, 22, 200):
                yield 'hkdf_extract %s %s %s' % (d, rng.data(sl), rng.data(il))
        for L in (0, 1, hl - 1, hl, hl + 1, 2 * hl, 2 * hl + 1, 7 * hl + 3, 255 * hl - 1, 255 * hl, 255 * hl + 1, 256 * hl - 1, 256 * hl, 256 * hl + 1, 300 * hl):
            for il in (0, 10) + ((77,) if thorough else ()):
                yield 'hkdf_expand %s %s %s %d' % (d, rng.data(rng.choice([hl, hl + 5, 2 * hl])), rng.data(il), L)
        # the digest object handed in is not fresh: it has absorbed data, or has even been finalised (HKDF starts its own hash)
        for soil in ('soil/%s' % rng.data(rng.choice([1, 20, 64, 200])), 'soil/%s/fin' % rng.data(rng.choice([0, 3, 130]))):
            yield 'hkdf_extract %s %s %s - %s' % (d, rng.data(rng.choice([0, 13, hl])), rng.data(22), soil)
            yield 'hkdf_expand %s %s %s %d %s' % (d, rng.data(hl), rng.data(10), rng.choice([1, hl, 2 * hl + 1]), soil)
    for d in ('sha1', 'sha256', 'sha512') + (('sha3_256', 'ripemd160', 'blake2b:64') if thorough else ()):
        hl = o.digest_fn(d)[2]
        for c in (1, 2, 3, 4, 5, 10, 100) + ((4096,) if thorough else ()):
            dks = [1, hl - 1, hl, hl + 1, 2 * hl, 2 * hl + 7, 3 * hl + 1, rng.rng(1, 5 * hl)]
            if c >= 100:
                dks = [hl + 1, 2 * hl]
            for dk in dks:
                yield 'pbkdf2 %s %s %s %d %d' % (d, rng.data(rng.choice([0, 1, 8, 64, 65, 200])), rng.data(rng.choice([0, 1, 8, 16, 100])), c, dk)
        yield 'pbkdf2 %s %s %s %d %d' % (d, rng.data(8), rng.data(8), rng.rng(200, 1000), 3 * hl + 5)
    # every salt, password, IKM and info length 0..=140 (the first PRF message is salt || INT(i): lengths where salt+4 crosses a
    # 64- / 128-byte block or a small-buffer limit; passwords / IKM around the block size of the hash are hashed first)
    for n in range(0, 141):
        d = ('sha1', 'sha256', 'sha512')[n % 3]
        hl = o.digest_fn(d)[2]
        yield 'pbkdf2 %s %s %s %d %d' % (d, rng.data(rng.choice([1, 8, 20])), rng.data(n), rng.choice([1, 2]), rng.choice([hl, hl + 3, 2 * hl + 1]))
        yield 'pbkdf2 %s %s %s 1 %d' % (('sha256', 'sha512', 'sha1')[n % 3], rng.data(n), rng.data(rng.choice([4, 16])), rng.choice([5, 33, 70]))
        yield 'scrypt %s %s %d 1 1 %d' % (rng.data(rng.choice([0, 5, 70])) if n % 2 else rng.data(n), rng.data(n), rng.choice([1, 2]), rng.choice([16, 33, 64]))
        yield 'hkdf_extract %s %s %s' % (d, rng.data(n), rng.data((n * 7) % 141))
        yield 'hkdf_expand %s %s %s %d' % (d, rng.data(hl), rng.data(n), rng.choice([1, hl, 2 * hl + 1]))
    # two derivations on one Mac object (the API takes `&mut Mac`): first output lengths that end on a partial / a whole block
    for d, hl in (('sha256', 32), ('sha1', 20), ('sha512', 64), ('b2bmac:32', 32)):
        for dk1 in (1, hl - 1, hl, hl + 1, 2 * hl, 2 * hl + 7):
            pw = rng.data(rng.choice([1, 8, 32]))
            yield 'pbkdf2_twice %s %s %s %d %d %s %d %d' % (d, pw, rng.data(8), rng.choice([1, 2, 3]), dk1, rng.data(rng.choice([0, 8, 16])), rng.choice([1, 2]), rng.choice([hl, hl + 3, 5]))
    # every output length: PBKDF2 dkLen 1..=200 (c = 1, 2), HKDF-Expand L 0..=300
    for n in range(1, 201):
        d = ('sha256', 'sha1', 'sha512')[n % 3]
        yield 'pbkdf2 %s %s %s %d %d' % (d, rng.data(8), rng.data(8), 1 + n % 2, n)
    for n in range(0, 301):
        d = ('sha256', 'sha512', 'sha1')[n % 3]
        yield 'hkdf_expand %s %s %s %d' % (d, rng.data(o.digest_fn(d)[2]), rng.data(rng.choice([0, 5, 40])), n)
    # PRFs whose output length is not a multiple of 4 / 8 / 16 bytes: HMAC over truncated BLAKE2, and keyed BLAKE2 itself as the PRF
    for d, hl in (('blake2s:25', 25), ('blake2b:30', 30), ('blake2b:1', 1), ('blake2s:7', 7), ('b2bmac:30', 30), ('b2bmac:64', 64), ('b2bmac:13', 13), ('b2smac:25', 25), ('b2smac:32', 32), ('b2smac:3', 3)):
        for c in (1, 2, 3, 10):
            for dk in (1, hl - 1 if hl > 1 else 2, hl, hl + 1, 2 * hl + 3, 5 * hl):
                pw = rng.data(rng.choice([1, 8, 32]) if 'mac' in d else rng.choice([0, 1, 8, 64, 200]))
                yield 'pbkdf2 %s %s %s %d %d' % (d, pw, rng.data(rng.choice([0, 8, 16])), c, dk)
    # block index above 2^16 (and, thorough, a second digest): INT(i) must stay a 32-bit big-endian counter
    yield 'pbkdf2 sha1 %s %s 1 %d' % (rng.data(8), rng.data(8), 65537 * 20 + 3)
    if thorough:
        yield 'pbkdf2 sha256 %s %s 1 %d' % (rng.data(8), rng.data(8), 65538 * 32 + 1)
        yield 'pbkdf2 sha512 %s %s 2 %d' % (rng.data(8), rng.data(8), 65536 * 64 + 65)
    # N above 2^16 (admissible only with r >= 2): Integerify must use more than 16 bits of the last block
    yield 'scrypt %s %s 17 2 1 %d' % (rng.data(8), rng.data(8), rng.choice([16, 32, 64]))
    if thorough:
        yield 'scrypt %s %s 18 2 1 33' % (rng.data(5), rng.data(12))
        yield 'scrypt %s %s 17 3 2 64' % (rng.data(5), rng.data(12))
    # very long outputs (hundreds of thousands / millions of PBKDF2 blocks; 128 MiB is 2^22 SHA-256 blocks): admissible for every RFC
    # (dkLen <= (2^32-1)*hLen) and must neither be refused nor wrap; the driver reports CRC-32 plus the first and last 32 bytes
    yield 'scrypt_big %s %s 1 1 1 %d #huge' % (rng.data(8), rng.data(4), (1 << 27) + 33)
    yield 'pbkdf2_big sha512 %s %s 1 %d #huge' % (rng.data(8), rng.data(4), (1 << 26) + 65)
    if thorough:
        yield 'scrypt_big %s %s 2 2 1 %d #huge' % (rng.data(8), rng.data(4), (1 << 28) + 1)
        yield 'pbkdf2_big sha1 %s %s 1 %d #huge' % (rng.data(8), rng.data(4), 20 * ((1 << 22) + 1) + 7)
        yield 'pbkdf2_big sha256 %s %s 1 %d #huge' % (rng.data(8), rng.data(4), (1 << 27) + 31)
    # admissible corner parameters are accepted by ScryptParams::new (nothing is allocated): log2 N just below 16 r, r p just below 2^30
    for ln, r, p_ in ((15, 1, 1), (1, 1, (1 << 30) - 1), (1, (1 << 30) - 1, 1), (1, 1 << 15, (1 << 15) - 1), (31, 2, 1), (47, 3, 1), (50, 8, 16), (20, 2, 1 << 20), (1, 1, 1)):
        yield 'scrypt_params %d %d %d #accept' % (ln, r, p_)
    grid = [(ln, r, p) for ln in range(1, 11) for r in range(1, 9) for p in range(1, 5)]
    reps = 2 if thorough else 1
    for rep in range(reps):
        for (ln, r, p) in grid:
            if not thorough and (ln + r + p + seed) % 4 != 0:
                continue
            dk = rng.choice([1, 31, 32, 33, 64, 65, 130, rng.rng(1, 130)])
            yield 'scrypt %s %s %d %d %d %d' % (rng.data(rng.choice([0, 1, 8, 70])), rng.data(rng.choice([0, 1, 8, 40])), ln, r, p, dk)
    # every dkLen 1..130 at a small setting
    for dk in range(1, 131):
        yield 'scrypt %s %s %d %d %d %d' % (rng.data(6), rng.data(4), rng.choice([1, 2, 3]), rng.choice([1, 2, 3]), rng.choice([1, 2]), dk)


def _summary(d):
    import zlib
    return '%08x:%s:%s' % (zlib.crc32(d), d[:32].hex(), d[-32:].hex())


def check(line, toks):
    f = line.split(' #')[0].split()
    op = f[0]
    hx = lambda b: b.hex() or '-'
    if op == 'hkdf_extract':
        exp = [hx(o.hkdf_extract(f[1], expand(f[2]), expand(f[3])))]
    elif op == 'hkdf_expand':
        hl = o.digest_fn(f[1])[2]
        L = int(f[4])
        if L > 255 * hl:
            if toks != ['PANIC']:
                return [('C10:hkdf_expand:overlimit-not-refused', 'L=%d > 255*%d returned %s' % (L, hl, ' '.join(toks)[:60]))]
            return []
        exp = [hx(o.hkdf_expand(f[1], expand(f[2]), expand(f[3]), L))]
    elif op == 'pbkdf2':
        if int(f[5]) > 100000 and f[1] in ('sha1', 'sha256', 'sha512'):
            import hashlib
            exp = [hx(hashlib.pbkdf2_hmac(f[1], expand(f[2]), expand(f[3]), int(f[4]), int(f[5])))]
        else:
            exp = [hx(o.pbkdf2(f[1], expand(f[2]), expand(f[3]), int(f[4]), int(f[5])))]
    elif op == 'pbkdf2_twice':
        pw = expand(f[2])
        exp = [hx(o.pbkdf2(f[1], pw, expand(f[3]), int(f[4]), int(f[5]))), hx(o.pbkdf2(f[1], pw, expand(f[6]), int(f[7]), int(f[8])))]
    elif op == 'scrypt_params':
        if toks != ['OK']:
            return [('C10:scrypt:admissible-parameters-refused', 'log2N=%s r=%s p=%s: %s' % (f[1], f[2], f[3], ' '.join(toks)[:60]))]
        return []
    elif op == 'scrypt_big':
        exp = [_summary(o.scrypt(expand(f[1]), expand(f[2]), int(f[3]), int(f[4]), int(f[5]), int(f[6])))]
    elif op == 'pbkdf2_big':
        import hashlib
        exp = [_summary(hashlib.pbkdf2_hmac(f[1], expand(f[2]), expand(f[3]), int(f[4]), int(f[5])))]
    elif op == 'scrypt':
        exp = [hx(o.scrypt(expand(f[1]), expand(f[2]), int(f[3]), int(f[4]), int(f[5]), int(f[6])))]
    if toks != exp:
        return [('C10:%s:output-mismatch' % op, '%s: expected %s got %s' % (' '.join(f[:2] + f[3:])[:80] if op.startswith('scrypt') else ' '.join(f[1:2] + f[4:]), exp[0][:64], ' '.join(toks)[:64]))]
    return []


def classify(line):
    f = line.split(' #')[0].split()
    soiled = ('soiled-fin' if f[-1].endswith('/fin') else 'soiled') if f[-1].startswith('soil/') else 'fresh'
    if f[0] == 'hkdf_extract':
        return (f[0], f[1], spec_len(f[2]), spec_len(f[3]), soiled)
    if f[0] == 'hkdf_expand':
        return (f[0], f[1], spec_len(f[3]), f[4], soiled)
    if f[0] == 'pbkdf2':
        return (f[0], f[1], f[4], f[5])
    return tuple(f[0:1] + f[3:])


def coverage(line, toks):
    f = line.split(' #')[0].split()
    if f[0] in ('scrypt_big', 'pbkdf2_big'):
        return [f[0], 'kdf:output-of-2^26-bytes-or-more']
    if f[0] == 'scrypt_params':
        return ['scrypt:corner-parameters-accepted']
    if f[0] == 'scrypt':
        return ['scrypt:r=%s' % f[4], 'scrypt:p=%s' % f[5], 'scrypt:logn=%s' % f[3]]
    if f[0] == 'hkdf_expand':
        return ['hkdf_expand:%s' % ('refused' if toks == ['PANIC'] else 'ok')] + (['hkdf:digest-object-not-fresh'] if f[-1].startswith('soil/') else [])
    if f[0] == 'hkdf_extract' and f[-1].startswith('soil/'):
        return [f[0], 'hkdf:digest-object-not-fresh']
    if f[0] == 'pbkdf2' or f[0] == 'scrypt':
        return [f[0], 'kdf:output-buffer-prefilled']
    return [f[0]]


def san_subset(lines):
    out = []
    for l in lines:
        f = l.split(' #')[0].split()
        if f[0] == 'scrypt' and int(f[3]) <= 3 and int(f[4]) <= 3 and int(f[6]) in (1, 33, 64, 130):
            out.append(l)
        elif f[0] == 'pbkdf2' and int(f[4]) <= 3:
            out.append(l)
        elif f[0] == 'hkdf_expand' and int(f[4]) <= 200:
            out.append(l)
    return out[:120]
