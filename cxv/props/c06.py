"""C06 - ChaCha20-Poly1305 equals RFC 8439; decrypt inverts encrypt; one-shot or streamed."""
import struct
from ..codec import Rng, expand, spec_len
from ..aeadmodel import check_aead, tag_of, tag_of_zero_ct, stream
from .. import oracle as o

ID = 'C06'
RULE = ('one record per one-shot encrypt / decrypt or per incremental history (add_data*, to_encryption|to_decryption, encrypt|encrypt_mut|'
        'decrypt|decrypt_mut*, finalize); ciphertext, tag, plaintext and verdict must equal the RFC 8439 composition; AAD and data lengths '
        'from {0,1,15,16,17,31,32,33,63,64,65}^2 plus random; key lengths 16/32; rounds 20 (8,12 via the generic contexts); partitions: whole, '
        'bytewise, random (mixing in-place and buffer-to-buffer, continuing on clones of the context taken at any point); ciphertexts solved so that the Poly1305 accumulator hits extreme limb / carry patterns; AAD of 2^32+5 bytes; one message of more than 65535 blocks, one of more than 2^32 bytes; distinct = (op, rounds, keylen, aad length, data length, partition shape)')
ASSUMPTIONS = ['ChaCha20, Poly1305 models of C03/C05; composition pinned by RFC 8439 2.8.2']
FLOORS = {'evaluations': 2000, 'distinct': 1500}
THOROUGH_ROUNDS = 30   # thorough tier: generator passes with derived seeds (runner.gen_rounds)
EXTRA_CFGS = ['f32']   # the workload is also executed by the force-32bits build of the library; results must not change (runner.standard_check)
LENS = [0, 1, 15, 16, 17, 31, 32, 33, 63, 64, 65]


def partition(rng, data, kinds, style):
    n = len(data)
    if style == 'whole':
        cuts = [0, n]
    elif style == 'bytes':
        cuts = list(range(n + 1)) if n else [0, 0]
    else:
        cuts = sorted(set([0, n] + [rng.rng(0, n) for _ in range(rng.rng(1, 8))]))
        if rng.below(3) == 0 and n > 70:   # start mid-block and run past the 64-byte boundary
            cuts = sorted(set(cuts + [10, 100 if n > 100 else n]))
        if rng.below(4) == 0:
            cuts.insert(1, cuts[1]) if len(cuts) > 1 else None   # an empty piece
    steps = []
    for a, b in zip(cuts, cuts[1:]):
        steps.append('%s.%s' % (rng.choice(kinds), data[a:b].hex() or '-'))
        if style == 'random' and rng.below(5) == 0:
            steps.append(rng.choice(['cl', 'cl', 'clf']))       # continue on a clone of the context / on a fresh context overwritten by clone_from (AAD phase or data phase, possibly mid-block)
        if style == 'random' and rng.below(12) == 0 and kinds[0] in ('e', 'd'):
            n = rng.choice([1, 16, 33])
            steps.append('%sx.%s.%d' % (kinds[0], rng.bytes(n).hex(), n + rng.choice([-1, 1, 16])))      # refused call (output length mismatch), then the context is used again
    return steps


def gen(tier, seed):
    rng = Rng('C06', seed)
    thorough = tier == 'thorough'
    for kl in (16, 32):
        for al in LENS:
            for dl in LENS:
                key, nonce = rng.bytes(kl), rng.bytes(12)
                aad, pt = rng.bytes(al), rng.bytes(dl)
                k, nn = key.hex(), nonce.hex()
                yield 'aead_enc 20 %s %s %s %s' % (k, nn, aad.hex() or '-', pt.hex() or '-')
                ct, tag = o.aead_encrypt(key, nonce, aad, pt)
                yield 'aead_dec 20 %s %s %s %s %s' % (k, nn, aad.hex() or '-', ct.hex() or '-', tag.hex())
                for style in ('whole', 'bytes', 'random', 'random') + (('random',) * 6 if thorough else ()):
                    a_steps = partition(rng, aad, ['a'], style)
                    yield 'aead_inc 20 %s %s %s E %s fin' % (k, nn, ' '.join(a_steps), ' '.join(partition(rng, pt, ['e', 'em'], style)))
                    a_steps = partition(rng, aad, ['a'], style)
                    yield 'aead_inc 20 %s %s %s D %s fin.%s' % (k, nn, ' '.join(a_steps), ' '.join(partition(rng, ct, ['d', 'dm'], style)), tag.hex())
    # pieces whose length is exactly a keystream block (or a MAC block) multiple, delivered from a position that is not block aligned,
    # and the other way round (a shortcut for "exactly one block" / "whole blocks" must look at the cached partial block first)
    for i in range(120 if thorough else 24):
        kl = rng.choice([16, 32]); key, nonce = rng.bytes(kl), rng.bytes(12)
        aad, pt = rng.bytes(rng.choice([0, 5, 16, 20, 64, 77])), rng.bytes(rng.rng(130, 420))
        ct, tag = o.aead_encrypt(key, nonce, aad, pt)
        def blocky(data, kinds):
            first = rng.choice([1, 5, 10, 16, 33, 48, 63, 64])
            cuts = [0, min(first, len(data))]
            while cuts[-1] < len(data):
                cuts.append(min(len(data), cuts[-1] + rng.choice([64, 64, 64, 128, 16, 32, 192, 63, 65])))
            return ' '.join('%s.%s' % (rng.choice(kinds), data[a:b].hex() or '-') for a, b in zip(cuts, cuts[1:]))
        acuts = blocky(aad, ['a']) if aad else 'a.-'
        yield 'aead_inc 20 %s %s %s E %s fin #blocky' % (key.hex(), nonce.hex(), acuts, blocky(pt, ['e', 'em']))
        yield 'aead_inc 20 %s %s %s D %s fin.%s #blocky' % (key.hex(), nonce.hex(), acuts, blocky(ct, ['d', 'dm']), tag.hex())
    # every AAD length 0..=80 and every data length 0..=200 (one-shot; the other coordinate walks through the residues)
    for a in range(0, 81):
        key, nonce = rng.bytes(rng.choice([16, 32])), rng.bytes(12)
        aad, pt = rng.bytes(a), rng.bytes((a * 37) % 201)
        yield 'aead_enc 20 %s %s %s %s #lensweep' % (key.hex(), nonce.hex(), aad.hex() or '-', pt.hex() or '-')
    for n in range(0, 201):
        key, nonce = rng.bytes(rng.choice([16, 32])), rng.bytes(12)
        aad, pt = rng.bytes((n * 13) % 81), rng.bytes(n)
        ct, tag = o.aead_encrypt(key, nonce, aad, pt)
        yield 'aead_dec 20 %s %s %s %s %s #lensweep' % (key.hex(), nonce.hex(), aad.hex() or '-', ct.hex() or '-', tag.hex())
    # other round counts
    for rounds in (8, 12):
        for _ in range(60 if thorough else 12):
            kl = rng.choice([16, 32]); key, nonce = rng.bytes(kl), rng.bytes(12)
            aad, pt = rng.bytes(rng.choice(LENS + [100])), rng.bytes(rng.choice(LENS + [130, 200]))
            yield 'aead_enc %d %s %s %s %s' % (rounds, key.hex(), nonce.hex(), aad.hex() or '-', pt.hex() or '-')
            ct, tag = o.aead_encrypt(key, nonce, aad, pt, rounds)
            yield 'aead_dec %d %s %s %s %s %s' % (rounds, key.hex(), nonce.hex(), aad.hex() or '-', ct.hex() or '-', tag.hex())
            yield 'aead_inc %d %s %s %s E %s fin' % (rounds, key.hex(), nonce.hex(), ' '.join(partition(rng, aad, ['a'], 'random')), ' '.join(partition(rng, pt, ['e', 'em'], 'random')))
            yield 'aead_inc %d %s %s %s D %s fin.%s' % (rounds, key.hex(), nonce.hex(), ' '.join(partition(rng, aad, ['a'], 'random')), ' '.join(partition(rng, ct, ['d', 'dm'], 'random')), tag.hex())
    # directed Poly1305 accumulator states inside the AEAD: the ciphertext's last block is solved so that the accumulator (before
    # "+ s") lands on extreme limb patterns / carry-rippling word sums; submitted through decrypt (must accept) and encrypt
    from ..polytargets import accumulator_targets, solve_last_block, absorb
    CL = 0x0ffffffc0ffffffc0ffffffc0fffffff
    for _ in range(40 if thorough else 8):
        kl = rng.choice([16, 32]); key, nonce = rng.bytes(kl), rng.bytes(12)
        otk = o.chacha_ietf_block(key, nonce, 0)[:32]
        r = int.from_bytes(otk[:16], 'little') & CL; sv = int.from_bytes(otk[16:], 'little')
        if r == 0:
            continue
        for T in accumulator_targets(rng, r, sv, 60 if thorough else 30):
            for _try in range(12):
                aad = rng.bytes(rng.choice([0, 5, 16, 20]))
                pre = rng.bytes(16 * rng.rng(0, 2))
                acc = absorb(r, 0, aad + o.pad16(aad))
                acc = absorb(r, acc, pre)
                lenblk = int.from_bytes(struct.pack('<QQ', len(aad), len(pre) + 16) + b'\x01', 'little')
                last = solve_last_block(r, acc, T, after=(lenblk,))
                if last is None:
                    continue
                ct = pre + last
                tag = tag_of(20, key, nonce, aad, ct)
                assert (int.from_bytes(tag, 'little') - sv) % (1 << 128) == T % (1 << 128)
                yield 'aead_dec 20 %s %s %s %s %s' % (key.hex(), nonce.hex(), aad.hex() or '-', ct.hex(), tag.hex())
                yield 'aead_enc 20 %s %s %s %s' % (key.hex(), nonce.hex(), aad.hex() or '-', stream(20, key, nonce, ct).hex())
                yield 'aead_inc 20 %s %s a.%s D dm.%s fin.%s' % (key.hex(), nonce.hex(), aad.hex() or '-', ct.hex(), tag.hex())
                break
    # associated data longer than 2^32 bytes (the 64-bit length trailer): zeros fed in chunks, oracle by closed form
    for n in ([(1 << 32) + 5] if not thorough else [(1 << 32) + 5, (1 << 32), (1 << 33) + 17]):
        key, nonce = rng.bytes(32), rng.bytes(12)
        pt = rng.bytes(37)
        yield 'aead_inc 20 %s %s az.%d.%d E e.%s fin' % (key.hex(), nonce.hex(), n, 1 << 20, pt.hex())
    for n in (0x10005, 0x1000010):      # moderate sizes through the same path (also checked against the plain model below)
        key, nonce = rng.bytes(16), rng.bytes(12)
        yield 'aead_inc 20 %s %s az.%d.%d E em.%s fin' % (key.hex(), nonce.hex(), n, 4099, rng.bytes(20).hex())
    # a message longer than 65535 blocks (4 MiB): the block counter has to carry out of its low 16 bits (and bytes) inside one message
    key, nonce = rng.bytes(32), rng.bytes(12)
    yield 'aead_enc 20 %s %s %s %s #huge' % (key.hex(), nonce.hex(), rng.bytes(9).hex(), rng.data(65535 * 64 + rng.rng(65, 300)))
    if thorough:
        key, nonce = rng.bytes(16), rng.bytes(12)
        yield 'aead_inc 20 %s %s a.%s E em.%s e.%s fin #huge' % (key.hex(), nonce.hex(), rng.bytes(3).hex(), rng.data(65536 * 64 - 7), rng.data(150))
    # more than 2^32 bytes of message through one context (RFC 8439 allows 2^32 - 1 blocks): zero ciphertext decrypted in 1 MiB pieces,
    # tag by closed form, first and last keystream block compared
    key, nonce = rng.bytes(32), rng.bytes(12)
    aad0 = rng.bytes(5)
    n = (1 << 32) + 64 * rng.rng(1, 9)
    yield 'aead_inc 20 %s %s a.%s D dz.%d.%d fin.%s #huge' % (key.hex(), nonce.hex(), aad0.hex(), n, 1 << 20, tag_of_zero_ct(20, key, nonce, aad0, n).hex())
    key, nonce = rng.bytes(16), rng.bytes(12)
    n = 64 * rng.rng(3, 40)       # the same path at a small size (cross-checked below against the plain model)
    yield 'aead_inc 20 %s %s a.%s D dz.%d.%d fin.%s' % (key.hex(), nonce.hex(), aad0.hex(), n, 100, tag_of_zero_ct(20, key, nonce, aad0, n).hex())
    assert tag_of_zero_ct(20, key, nonce, aad0, n) == tag_of(20, key, nonce, aad0, bytes(n))
    # larger random sizes
    for _ in range(150 if thorough else 25):
        kl = rng.choice([16, 32]); key, nonce = rng.bytes(kl), rng.bytes(12)
        aad, pt = rng.bytes(rng.rng(0, 600)), rng.bytes(rng.rng(66, 4096))
        yield 'aead_enc 20 %s %s %s %s' % (key.hex(), nonce.hex(), aad.hex() or '-', pt.hex())
        ct, tag = o.aead_encrypt(key, nonce, aad, pt)
        yield 'aead_dec 20 %s %s %s %s %s' % (key.hex(), nonce.hex(), aad.hex() or '-', ct.hex(), tag.hex())
        yield 'aead_inc 20 %s %s %s E %s fin' % (key.hex(), nonce.hex(), ' '.join(partition(rng, aad, ['a'], 'random')), ' '.join(partition(rng, pt, ['e', 'em'], 'random')))
        yield 'aead_inc 20 %s %s %s D %s fin.%s' % (key.hex(), nonce.hex(), ' '.join(partition(rng, aad, ['a'], 'random')), ' '.join(partition(rng, ct, ['d', 'dm'], 'random')), tag.hex())


def check(line, toks):
    return [('C06:%s' % k, m) for k, m in check_aead(line, toks)]


def shape(line):
    f = line.split()
    if f[0] == 'aead_inc':
        al = sum(spec_len(s[2:]) for s in f[4:] if s.startswith('a.')) + sum(int(s.split('.')[1]) for s in f[4:] if s.startswith('az.'))
        steps = [s for s in f[4:] if s.split('.')[0] in ('e', 'em', 'd', 'dm', 'cl', 'clf', 'ex', 'dx')]
        zc = sum(int(s.split('.')[1]) for s in f[4:] if s.startswith('dz.'))
        real = lambda s: s.split('.')[0] in ('e', 'em', 'd', 'dm')
        dl = sum(spec_len(s.split('.')[1]) for s in steps if real(s))
        return (f[0], f[1], spec_len(f[2]), al, dl + zc, tuple((s.split('.')[0], spec_len(s.split('.')[1]) if real(s) else 0) for s in steps))
    return (f[0], f[1], spec_len(f[2]), spec_len(f[4]), spec_len(f[5]))


def classify(line):
    return shape(line)


def coverage(line, toks):
    f = line.split()
    out = [f[0] + ':r' + f[1] + ':k' + str(spec_len(f[2]))]
    if f[0] == 'aead_inc':
        pos = 0
        data_phase = False
        for s in f[4:]:
            p = s.split('.')
            if p[0] in ('e', 'em', 'd', 'dm'):
                ln = spec_len(p[1])
                if pos % 64 and pos % 64 + ln > 64:
                    out.append('inc:%s:midblock-cross' % p[0])
                pos += ln
            elif p[0] in ('E', 'D'):
                data_phase = True
            elif p[0] in ('ex', 'dx'):
                out.append('inc:refused-call-then-reuse')
            elif p[0] in ('cl', 'clf'):
                out.append('inc:clone:%s' % ('aad-phase' if not data_phase else ('midblock' if pos % 64 else 'block-boundary')))
    return out


def san_subset(lines):
    rng = Rng('C06-san')
    return [l for l in lines if rng.below(25) == 0][:200]
