"""C16 - vectorised and portable code paths compute identical results (differential between builds + spec)."""
import os, time
from ..codec import Rng, expand, spec_len
from .. import runner as R
from .. import sanitizers as S
from ..dispatch import check_any
from .. import oracle as o

ID = 'C16'
RULE = ('the same deterministic case file is executed by harness binaries compiled for {baseline, +sse4.1, +avx, +avx2, +sha+sse4.1}; every output must equal the specification model and be '
        'byte-identical across builds; SHA-224/256 one-shot at every input offset 0..31 x 0..20 blocks x tails {0,1,63}, contexts preloaded with prefixes of every length mod 64 '
        'then fed multi-block updates, BLAKE2b/2s keyed/unkeyed 0..5 blocks with every tail class, contexts embedded at offset 8 of a repr(C) struct inside a Vec, BLAKE2 byte counters preset next to 2^32/2^64/2^128 (hook), HMAC/PBKDF2/'
        'scrypt/Argon2 samples, and the public ChaCha contexts (SSE2 engine) against the portable engine for every key/nonce length, single calls and whole histories (chunked processing, seek from any position, clone); a sample of the X25519 / Ed25519 / field / group workloads of C12-C15 on every build configuration; memcheck and ASan run the +avx2 build; '
        'distinct = (op family, variant, offset, block count, tail) per build')
ASSUMPTIONS = ['host CPU executes SSE4.1/AVX/AVX2 (checked at run time; a configuration the CPU cannot run is reported, not judged)', 'spec models of C01-C11']
FLOORS = {'evaluations': 12000, 'distinct': 3000}
THOROUGH_ROUNDS = 40   # thorough tier: generator passes with derived seeds (runner.gen_rounds)
CFGS = ['rel', 'sse41', 'avx', 'avx2', 'shani']


def gen(tier, seed):
    rng = Rng('C16', seed)
    thorough = tier == 'thorough'
    tails = [0, 1, 63] + ([7, 32, 55, 56] if thorough else [])
    for off in range(32):
        for blocks in range(0, 21):
            for t in tails:
                n = blocks * 64 + t
                yield 'hashoff sha256 %d %s #sha256/off%d/b%d/t%d' % (off, rng.data(n), off, blocks, t)
                if (off + blocks + t) % 3 == 0 or thorough:
                    yield 'hashoff sha224 %d %s #sha224/off%d/b%d/t%d' % (off, rng.data(n), off, blocks, t)
    # contexts with a partially filled buffer and an arbitrary chaining state, then one large update (direct multi-block path)
    for v in ('sha256', 'sha224'):
        for pre in range(0, 64 if v == 'sha256' or thorough else 16):
            for blocks in (1, 3, 4, 5, 7, 8, 9, 12, 15, 16, 17, 20) + ((2, 6, 10, 11, 13, 14, 18, 19, 24, 33) if thorough else ()):
                big = blocks * 64 + rng.choice([0, 1, 63])
                chain = rng.choice([0, 64, 128, 640])
                yield 'hh %s m.0.%s m.0.%s m.0.%s c.0.1 m.1.%s F.0 F.1 #ctx-%s/pre%d/b%d' % (v, rng.data(chain), rng.data(pre), rng.data(big), rng.data(rng.choice([0, 5, 512, 577])), v, pre, blocks)
    # BLAKE2
    for fam, bs, maxo, maxk in (('b2b', 128, 64, 64), ('b2s', 64, 32, 32)):
        for blocks in range(0, 6):
            for t in (0, 1, bs // 2, bs - 1):
                for keyed in (0, 1):
                    for ol in (1, maxo // 2, maxo):
                        n = blocks * bs + t
                        key = rng.data(rng.choice([1, maxk // 2, maxk])) if keyed else '-'
                        yield '%s %d %s %s #%s/b%d/t%d/k%d' % (fam, ol, key, rng.data(n), fam, blocks, t, keyed)
                        yield 'b2embed %s %d %s %s #embed-%s/b%d/t%d/k%d' % (fam[2], ol, key, rng.data(n), fam, blocks, t, keyed)
        for _ in range(80 if thorough else 20):
            ol = rng.rng(1, maxo); key = rng.data(rng.rng(0, maxk))
            steps = ['m.0.%s' % rng.data(rng.choice([0, 1, bs - 1, bs, bs + 1, 2 * bs, 3 * bs + 5, rng.rng(0, 6 * bs)])) for _ in range(rng.rng(1, 6))]
            yield 'hh %s/%d/%s %s c.0.1 %s f.0 F.1 #ctx-%s' % (fam, ol, key, ' '.join(steps), 'm.1.%s' % rng.data(rng.rng(0, 300)), fam)
    for v in ('blake2b_512', 'blake2b_256', 'blake2s_256', 'blake2s_224', 'sha256', 'sha224', 'sha512', 'sha1', 'sha3_256', 'ripemd160'):
        for _ in range(10):
            yield 'hash %s %s #oneshot-%s' % (v, rng.data(rng.rng(0, 3000)), v)
    for v, sizes in (('sha256', (64 * 100, 64 * 257 + 5, 65536, 1 << 20)), ('sha224', (64 * 33 + 1,)), ('blake2b_512', (128 * 100 + 3, 1 << 20)), ('blake2s_256', (64 * 100 + 3, 1 << 20))):
        for n in sizes:
            yield 'hash %s %s #oneshot-large-%s' % (v, rng.data(n), v)
    # BLAKE2 byte counters next to their word boundaries (hook preset): the vectorised compressions take the counter words too
    from .c20 import counter_cases
    for l in counter_cases(rng, thorough):
        if thorough or rng.below(3) == 0:
            yield l
    # users of the vectorised primitives
    for _ in range(60 if thorough else 15):
        yield 'mac hmac:sha256 %s i.0.%s i.0.%s r.0 #hmac-sha256' % (rng.data(rng.choice([0, 20, 64, 65, 200])), rng.data(rng.rng(0, 1500)), rng.data(rng.rng(0, 700)))
        yield 'mac hmac:blake2b:64 %s i.0.%s r.0 #hmac-blake2b' % (rng.data(rng.choice([0, 20, 128, 129])), rng.data(rng.rng(0, 1500)))
        yield 'mac b2bmac:32 %s i.0.%s r.0 x.0 i.0.%s r.0 #b2bmac' % (rng.data(32), rng.data(rng.rng(0, 700)), rng.data(rng.rng(0, 700)))
        yield 'pbkdf2 sha256 %s %s %d %d #pbkdf2' % (rng.data(8), rng.data(16), rng.rng(1, 5), rng.rng(1, 100))
        yield 'hkdf_expand sha256 %s %s %d #hkdf' % (rng.data(32), rng.data(10), rng.rng(1, 300))
    for _ in range(30 if thorough else 8):
        yield 'scrypt %s %s %d %d %d %d #scrypt' % (rng.data(8), rng.data(8), rng.rng(1, 6), rng.rng(1, 8), rng.rng(1, 3), rng.rng(1, 130))
        lanes = rng.rng(1, 3)      # memory below 8 blocks per lane is silently raised by the crate (documented, outside the claim): never generated
        yield 'argon2 %s 0x13 %d %d %d %d %s %s - - at #argon2' % (rng.choice(['d', 'i', 'id']), rng.rng(1, 3), rng.rng(8 * lanes, 80), lanes, rng.choice([16, 32, 64, 100]), rng.data(12), rng.data(16))
    # the curve code has no hand-written SIMD paths today, but its helpers (masked swaps, limb arrays) are compiled under the same
    # target features: a sample of the X25519 / Ed25519 / field / group workloads runs on every build configuration too
    from . import c12, c13, c14, c15
    crng = Rng('C16-curve', seed)
    for m_, keep in ((c12, 60), (c13, 30), (c14, 40), (c15, 120)):
        # (lines that decode a point are left to C15 / C17, where the open known finding about Ge::from_bytes is accounted for)
        ls = [l for l in m_.gen('quick', seed) if not l.startswith('x25519_iter') and not l.endswith('#fe-deep64')
              and not (m_ is c15 and c15.uses_decoded(l.partition(' #')[0].split()))]
        step = max(1, len(ls) // (keep * (3 if thorough else 1)))
        off = crng.below(step)
        for l in ls[off::step]:
            yield l.partition(' #')[0] + ' #curve/' + l.split()[0]
    # ChaCha: public contexts (SSE2 engine) and the portable engine on identical inputs
    for rounds in (8, 12, 20):
        for kl in (16, 32):
            for _ in range(8 if thorough else 3):
                key = rng.data(kl); data = rng.data(rng.choice([64, 65, 130, 300]))
                n12, n8, n24 = rng.data(12), rng.data(8), rng.data(24)
                if rng.below(2):      # nonces made of all-ones / zero words: a lane-wise counter increment must not carry into the nonce lanes
                    n12, n8, n24 = rng.word_pattern(12), rng.word_pattern(8), rng.word_pattern(24)
                st = rng.choice([0, 1, (1 << 32) - 1])
                for pub, prt, nonce in (('chacha', 'pchacha', n12), ('chachao', 'pchachao', n8)):
                    setter = ('s.0.%d' % st) if pub == 'chacha' else ('S.0.%d' % (st | (rng.below(1 << 32) << 32)))
                    yield 'sc %s %d %s %s %s p.0.%s #chacha-pair/%s/k%d' % (pub, rounds, key, nonce, setter, data, pub, kl)
                    yield 'sc %s %d %s %s %s p.0.%s #chacha-pair/%s/k%d' % (prt, rounds, key, nonce, setter, data, pub, kl)
                if kl == 32:
                    yield 'sc xchacha %d %s %s s.0.%d p.0.%s #chacha-pair/xchacha/k32' % (rounds, key, n24, st, data)
                    yield 'sc pxchacha %d %s %s s.0.%d p.0.%s #chacha-pair/xchacha/k32' % (rounds, key, n24, st, data)
                # whole histories (process / process_mut / in-place sub-slices / seek from any position / clone) on both engines
                from .c04 import history
                for pub, prt, nl_ in (('chacha', 'pchacha', 12), ('chachao', 'pchachao', 8)) + ((('xchacha', 'pxchacha', 24),) if kl == 32 else ()):
                    hkey, hnonce = rng.data(kl), (rng.data(nl_) if rng.below(2) else rng.word_pattern(nl_))
                    steps = ' '.join(history(rng, pub, rng.rng(6, 25)))
                    yield 'sc %s %d %s %s %s #chacha-pair/%s-history/k%d' % (pub, rounds, hkey, hnonce, steps, pub, kl)
                    yield 'sc %s %d %s %s %s #chacha-pair/%s-history/k%d' % (prt, rounds, hkey, hnonce, steps, pub, kl)
                for nl in (8, 12, 16):
                    yield 'pe %d %s %s #portable-init/k%d/n%d' % (rounds, key, rng.data(nl), kl, nl)
                yield 'peh %d %s %s #portable-hchacha/k%d' % (rounds, key, rng.data(16), kl)


class _Mod:
    """adapter so that runner.check_parallel can use the dispatcher"""
    ID = ID

    @staticmethod
    def check(line, toks):
        if '#counter/' in line:
            from .c20 import check_counter
            return [('C16:spec:blake2-counter', m) for s, m in check_counter(line, toks)]
        return [('C16:spec:' + s.split(':', 1)[1] if ':' in s else s, m) for s, m in check_any(line, toks)]

    @staticmethod
    def classify(line):
        return line.partition(' #')[2] or line[:80]

    @staticmethod
    def coverage(line, toks):
        return [line.partition(' #')[2].split('/')[0]]


def cpu_supports(feat):
    flags = open('/proc/cpuinfo').read()
    return (' ' + feat + ' ') in flags.replace('\n', ' ')


def san_subset(lines, rng=None):
    rng = rng or Rng('C16-san')
    out = []
    for l in lines:
        c = l.partition(' #')[2]
        if c.startswith(('sha256/', 'sha224/')):
            parts = c.split('/')
            if parts[2] in ('b0', 'b1', 'b4', 'b5', 'b8', 'b9', 'b17') and parts[1] in ('off0', 'off1', 'off13', 'off31') and rng.below(2) == 0:
                out.append(l)
        elif c.startswith(('b2b/', 'b2s/', 'embed-')) and rng.below(6) == 0:
            out.append(l)
        elif c.startswith('ctx-') and rng.below(25) == 0:
            out.append(l)
        elif c.startswith(('chacha-pair', 'portable')) and rng.below(6) == 0:
            out.append(l)
    return out


def run(tier, seed, replay=None):
    rep = R.Report(ID, tier, seed)
    rep.rule = RULE; rep.assumptions = list(ASSUMPTIONS)
    lines = [l.rstrip('\n') for l in open(replay) if l.strip() and not l.startswith('#')] if replay else R.gen_rounds(__import__('sys').modules[__name__], tier, seed)
    wd = R.workdir(ID)
    casefile = os.path.join(wd, 'cases-%s-%d.txt' % (tier, seed))
    R.write_cases(casefile, lines)
    need = {'sse41': 'sse4_1', 'avx': 'avx', 'avx2': 'avx2', 'shani': 'sha_ni'}
    cfgs = ['rel'] + [c for c in CFGS[1:] if cpu_supports(need[c])]
    skipped = [c for c in CFGS if c not in cfgs]
    bins = R.build_many(cfgs)
    per_cfg = {}
    for c in cfgs:
        res, crashes = R.run_driver(bins[c], casefile, len(lines), c)
        for cr in crashes:
            i = R.crashed_line(len(lines), max(1, min(R.NPROC, len(lines) // 50 + 1)), cr)
            rep.violations.append((c, i if i is not None else -1, 'C16:%s:crash' % c, 'driver built for %s died (rc=%s) %s' % (c, cr[1], cr[2][-200:]), lines[i] if i is not None else '', None))
        per_cfg[c] = res
    rep.samples = R.sample_lines(lines)
    rep.add_phase('rel-vs-spec', _Mod, lines, per_cfg['rel'])
    base = per_cfg['rel']
    ndiff = 0
    for c in cfgs[1:]:
        res = per_cfg[c]
        for i, l in enumerate(lines):
            a, b = base.get(i), res.get(i)
            if b is None:
                continue
            rep.evaluations += 1
            if a != b:
                ndiff += 1
                fam = l.partition(' #')[2].split('/')[0]
                rep.violations.append((c, i, 'C16:%s:%s:differs-from-baseline' % (c, fam), 'baseline %s.. %s build %s..' % (' '.join(a or [])[:48], c, ' '.join(b)[:48]), l, b))
    # portable vs SSE2 ChaCha on identical inputs (adjacent lines of a pair must agree)
    pairs = 0
    for i in range(len(lines) - 1):
        if '#chacha-pair' in lines[i] and lines[i].split()[1] in ('chacha', 'chachao', 'xchacha') and lines[i + 1].split()[1].startswith('p'):
            pairs += 1
            if base.get(i) != base.get(i + 1):
                rep.violations.append(('rel', i, 'C16:chacha-portable-vs-sse2', 'public context and portable engine disagree', lines[i], base.get(i + 1)))
    extra = {'configurations_compared': cfgs, 'configurations_skipped_cpu': skipped, 'records_per_configuration': len(lines), 'cross_build_differences': ndiff, 'chacha_engine_pairs': pairs}
    # sanitizers on the widest SIMD build
    sub = san_subset(lines)
    if sub and 'avx2' in cfgs:
        sfile = os.path.join(wd, 'san-%s-%d.txt' % (tier, seed))
        R.write_cases(sfile, sub if tier == 'thorough' else sub[:400])
        nsub = len(sub if tier == 'thorough' else sub[:400])
        sans = [S.memcheck(bins['avx2'], sfile, nsub, 'avx2'), S.asan('asan-avx2', sfile, nsub, 'asan-avx2')]
        if tier == 'thorough':
            msub = sub[:160]
            mfile = os.path.join(wd, 'miri-%s-%d.txt' % (tier, seed))
            R.write_cases(mfile, [l for l in msub if not l.startswith('hashoff sha2') and not l.startswith('hh sha2')])
            sans.append(S.miri(mfile, len(msub), 'miri-avx2', target_features='+avx2'))
        extra['sanitizers'] = []
        # instrumented / interpreted executions of the SIMD build must return what the native SIMD binary returns
        nat_s, _ = R.run_driver(bins['avx2'], sfile, nsub, 'avx2-san')
        nat_m = {}
        if tier == 'thorough':
            nat_m, _ = R.run_driver(bins['avx2'], mfile, len(msub), 'avx2-miri')
        for s in sans:
            nat, src_lines = (nat_m, [l for l in msub if not l.startswith('hashoff sha2') and not l.startswith('hh sha2')]) if s['tool'].startswith('miri') else (nat_s, sub)
            dn = S.differs_from_native(s, nat)
            for i, a, b in dn:
                rep.violations.append((s['tool'], i, 'C16:%s-vs-native:value-differs' % s['tool'].split(':')[0], 'native avx2: %s | under %s: %s' % (' '.join(a)[:80], s['tool'], ' '.join(b)[:80]), src_lines[i], b))
            extra['sanitizers'].append({'tool': s['tool'], 'ops_executed': s['ops_executed'], 'reports': len(s['reports']), 'inconclusive': s['inconclusive'],
                                        'results_compared_with_native': sum(1 for i in s.get('results', {}) if i in nat), 'results_differing_from_native': len(dn)})
            for r in s['reports']:
                if r.get('crate_frame') or 'crash' in r['kind']:
                    rep.violations.append((s['tool'], r.get('line', -1), 'C16:sanitizer:%s' % s['tool'], '%s at %s' % (r['kind'], r.get('crate_frame')), r['text'][:300].replace('\n', ' | '), None))
    return rep.finish(None if replay else FLOORS, extra)   # a replay re-runs a handful of cases: no floors
