"""Shared encoding between the Python generators/checkers and the Rust driver.

A *data spec* is one whitespace-free token:
    -              empty
    <hex>          literal bytes
    @seed:len      len bytes of the xorshift64* stream seeded with seed
    =bb:len        len copies of byte 0xbb
    %seed:per:len  the first `per` bytes of @seed repeated up to len bytes (huge messages)
Both sides expand specs with the same generator, so long inputs stay short in case files.
"""
import functools

M64 = (1 << 64) - 1


def prng_bytes(seed, n):
    x = (seed * 0x9E3779B97F4A7C15 + 0xD1B54A32D192ED03) & M64
    if x == 0:
        x = 1
    out = bytearray()
    while len(out) < n:
        x ^= x >> 12
        x ^= (x << 25) & M64
        x ^= x >> 27
        out += ((x * 0x2545F4914F6CDD1D) & M64).to_bytes(8, 'little')
    return bytes(out[:n])


@functools.lru_cache(maxsize=4096)
def expand(spec):
    if spec == '-':
        return b''
    c = spec[0]
    if c == '@':
        s, n = spec[1:].split(':')
        return prng_bytes(int(s), int(n))
    if c == '=':
        b, n = spec[1:].split(':')
        return bytes([int(b, 16)]) * int(n)
    if c == '%':
        s, per, n = spec[1:].split(':')
        per = int(per); n = int(n)
        blk = prng_bytes(int(s), per)
        return (blk * (n // per + 1))[:n]
    return bytes.fromhex(spec)


def spec_len(spec):
    if spec == '-':
        return 0
    c = spec[0]
    if c in '@=%':
        return int(spec.rsplit(':', 1)[1])
    return len(spec) // 2


def lit(b):
    """literal spec for bytes"""
    return b.hex() if b else '-'


def hx(b):
    return b.hex() if b else '-'


class Rng:
    """Deterministic generator for workload choices (not for data expansion)."""

    def __init__(self, *seed):
        import hashlib
        self.x = int.from_bytes(hashlib.sha256(repr(seed).encode()).digest()[:8], 'little') | 1
        self.n = 0

    def u64(self):
        x = self.x
        x ^= x >> 12
        x ^= (x << 25) & M64
        x ^= x >> 27
        self.x = x
        return (x * 0x2545F4914F6CDD1D) & M64

    def below(self, n):
        return self.u64() % n

    def rng(self, a, b):
        """inclusive range"""
        return a + self.u64() % (b - a + 1)

    def choice(self, seq):
        return seq[self.u64() % len(seq)]

    def bytes(self, n):
        out = bytearray()
        while len(out) < n:
            out += self.u64().to_bytes(8, 'little')
        return bytes(out[:n])

    def data(self, n):
        """a fresh PRNG data spec of n bytes"""
        if n == 0:
            return '-'
        self.n += 1
        return '@%d:%d' % (self.u64() >> 20, n)

    def word_pattern(self, n):
        """n bytes (hex) made of 32-bit words that are all-ones / zero / 0x80000000 / 0x7fffffff / random, at least one all-ones word
        (word-wise counter or nonce arithmetic that carries into a neighbouring word shows up on such values)"""
        nw = (n + 3) // 4
        ws = [self.choice(['ffffffff', 'ffffffff', '00000000', '00000080', 'ffffff7f', None, None]) for _ in range(nw)]
        ws[self.below(nw)] = 'ffffffff'
        return ''.join(w if w is not None else self.bytes(4).hex() for w in ws)[:2 * n]

    def shuffle(self, l):
        for i in range(len(l) - 1, 0, -1):
            j = self.u64() % (i + 1)
            l[i], l[j] = l[j], l[i]
        return l
