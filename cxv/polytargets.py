"""Directed Poly1305 accumulator targets (test generation only; the oracle stays the big-integer formula)."""
P = (1 << 130) - 5
ONES = (1 << 128) - 1
PATS = [0, 1, 2, 0x3ffffff, 0x3fffffe, 0x3fffffb, 0x2000000]


def accumulator_targets(rng, r, s, n):
    """values T (mod p) for the accumulator before '+ s': extreme 26-bit limb patterns, values next to 0 and p, and values whose
    low 128 bits make the final word-wise addition of s produce sums of exactly 0xffffffff with a carry coming in"""
    out = []
    sw = [(s >> (32 * i)) & 0xffffffff for i in range(4)]
    for j in range(4):      # the accumulator is < 2^130: choose the two top bits too
        top = j << 128
        w = [(-sw[0]) & 0xffffffff, 0xffffffff - sw[1], 0xffffffff - sw[2], 0xffffffff - sw[3]]
        out.append(top | sum(x << (32 * i) for i, x in enumerate(w)))
        w = [(-sw[0]) & 0xffffffff, 0xffffffff - sw[1], rng.below(1 << 32), rng.below(1 << 32)]
        out.append(top | sum(x << (32 * i) for i, x in enumerate(w)))
        w = [rng.below(1 << 32), (-sw[1]) & 0xffffffff, 0xffffffff - sw[2], rng.below(1 << 32)]
        out.append(top | sum(x << (32 * i) for i, x in enumerate(w)))
    out += list(range(0, 8)) + [P - k for k in range(1, 6)]
    # extreme 26-bit limb patterns: all-zero / all-one limbs, and limbs within a few dozen of 0 or 2^26 (the size of a deferred carry)
    pats = []
    while len(pats) < n:
        t = 0
        for i in range(5):
            c = rng.below(12)
            if c >= 10:
                limb = rng.below(1 << 26)
            elif c == 9:
                limb = rng.below(64)
            elif c == 8:
                limb = 0x3ffffff - rng.below(64)
            else:
                limb = PATS[c % 7]
            t |= limb << (26 * i)
        pats.append(t)
    # interleave, so that every prefix of the list contains both kinds
    mixed = []
    for i in range(max(len(out), len(pats))):
        if i < len(pats):
            mixed.append(pats[i])
        if i < len(out):
            mixed.append(out[i])
    return [t % P for t in mixed[:n]]


def solve_last_block(r, acc_prev, target, after=()):
    """16-byte block m such that ((acc_prev + m + 2^128) * r  ... then the blocks in `after` (already including their 2^128 /
    final-byte markers as integers) ...) == target (mod p); returns bytes or None when the solution is not a 128-bit value"""
    rinv = pow(r, P - 2, P)
    t = target
    for blk in reversed(after):
        t = (t * rinv - blk) % P
    m = (t * rinv - acc_prev - (1 << 128)) % P
    if m < (1 << 128):
        return m.to_bytes(16, 'little')
    return None


def absorb(r, acc, data):
    for i in range(0, len(data), 16):
        acc = (acc + int.from_bytes(data[i:i + 16] + b'\x01', 'little')) * r % P
    return acc
