"""Spec check of any case line by dispatching on the op to the owning property's checker."""
from .codec import expand
from . import oracle as o

_OWN = None


def _owners():
    global _OWN
    if _OWN is None:
        from .props import c01, c02, c03, c04, c05, c06, c07, c08, c09, c10, c11, c12, c13, c14, c15, c18
        _OWN = {}
        for op in ('hash', 'b2b', 'b2s', 'b2bt', 'b2st', 'b2blegacy', 'b2slegacy'):
            _OWN[op] = c01.check
        _OWN['hh'] = c02.check
        _OWN['sc'] = c04.check
        _OWN['drg'] = c04.check
        _OWN['mac'] = c09.check
        _OWN['dig'] = c09.check
        for op in ('aead_enc', 'aead_dec', 'aead_inc'):
            _OWN[op] = c06.check
        for op in ('hkdf_extract', 'hkdf_expand', 'pbkdf2', 'pbkdf2_twice', 'scrypt', 'scrypt_big', 'pbkdf2_big', 'scrypt_params'):
            _OWN[op] = c10.check
        _OWN['argon2'] = c11.check
        _OWN['argon2b'] = c11.check
        _OWN['argon2_accept'] = c11.check
        for op in ('x25519', 'x25519_base', 'x_dh', 'x_dhc', 'x_base', 'x25519_iter'):
            _OWN[op] = c12.check
        for op in ('ed_keypair', 'ed_sign', 'ed_sign_ext', 'ed_ext_pub', 'ed_exchange'):
            _OWN[op] = c13.check
        _OWN['ed_verify'] = c14.check
        for op in ('fe', 'consts', 'sc_reduce', 'sc_muladd', 'sc_canon', 'sc_rt', 'ge_base', 'ge_dsm', 'ge_chain', 'ge_prog', 'ge_decode', 'ge_table', 'ge_select'):
            _OWN[op] = c15.check
        for op in ('ct_u8_table', 'ct_u64', 'ct_arr', 'ct_slice', 'ct_u64arr', 'ct_u64slice', 'choice', 'ctopt', 'swap64', 'swap32', 'set64', 'set32', 'macres_eq', 'tag_eq', 'ct_arr_at', 'tag_eq_at'):
            _OWN[op] = c18.check
    return _OWN


def check_any(line, toks):
    body = line.split(' #')[0]
    f = body.split()
    op = f[0]
    if op == 'hashoff':
        exp = o.HASHES[f[1]](expand(f[3])).hex()
        return [] if toks == [exp] else [('spec:hashoff:%s' % f[1], 'offset %s: expected %s got %s' % (f[2], exp, ' '.join(toks)[:80]))]
    if op == 'b2embed':
        fn = o.blake2b if f[1] == 'b' else o.blake2s
        exp = fn(int(f[2]), expand(f[3]), expand(f[4])).hex()
        return [] if toks == [exp] else [('spec:b2embed:%s' % f[1], 'expected %s got %s' % (exp, ' '.join(toks)[:80]))]
    if op in ('pe', 'peh'):
        rounds, key, nonce = int(f[1]), expand(f[2]), expand(f[3])
        if op == 'peh':
            exp = o.hchacha(key, nonce, rounds).hex()
        else:
            tail = {16: nonce, 12: bytes(4) + nonce, 8: bytes(8) + nonce}[len(nonce)]
            exp = o.chacha_block(key, tail, rounds).hex()
        return [] if toks == [exp] else [('spec:%s' % op, 'expected %s got %s' % (exp[:40], ' '.join(toks)[:40]))]
    fn = _owners().get(op)
    if fn is None:
        raise KeyError('no spec checker for op %s' % op)
    if op in ('hh', 'sc', 'drg', 'mac', 'dig', 'aead_enc', 'aead_dec', 'aead_inc', 'hkdf_extract', 'hkdf_expand', 'pbkdf2', 'pbkdf2_twice', 'scrypt', 'scrypt_big', 'pbkdf2_big', 'scrypt_params', 'argon2', 'argon2b', 'argon2_accept'):
        return fn(body, toks)
    return fn(line, toks)
