"""Reference evaluation of the AEAD ops."""
from .codec import expand
from . import oracle as o


def tag_of_zero_ct(rounds, key, nonce, aad, nbytes):
    """RFC 8439 tag of (aad, nbytes zero bytes of ciphertext), nbytes a multiple of 16, without materialising the ciphertext"""
    import struct
    otk = o.chacha_ietf_block(key, nonce, 0, rounds)[:32]
    r_ = int.from_bytes(otk[:16], 'little') & 0x0ffffffc0ffffffc0ffffffc0fffffff
    P_ = (1 << 130) - 5
    acc = 0
    ad = aad + o.pad16(aad)
    for i in range(0, len(ad), 16):
        acc = (acc + int.from_bytes(ad[i:i + 16] + b'\x01', 'little')) * r_ % P_
    n = nbytes // 16
    if r_ == 0:
        acc = 0
    elif r_ == 1:
        acc = (acc + (n << 128)) % P_
    else:
        acc = (acc * pow(r_, n, P_) + (1 << 128) * r_ * (pow(r_, n, P_) - 1) * pow(r_ - 1, P_ - 2, P_)) % P_
    acc = (acc + int.from_bytes(struct.pack('<QQ', len(aad), nbytes) + b'\x01', 'little')) * r_ % P_
    return ((acc + int.from_bytes(otk[16:], 'little')) & ((1 << 128) - 1)).to_bytes(16, 'little')


def tag_of(rounds, key, nonce, aad, ct):
    otk = o.chacha_ietf_block(key, nonce, 0, rounds)[:32]
    import struct
    return o.poly1305(otk, aad + o.pad16(aad) + ct + o.pad16(ct) + struct.pack('<QQ', len(aad), len(ct)))


def stream(rounds, key, nonce, data):
    return o.xor_stream(lambda n: o.chacha_ietf_block(key, nonce, n, rounds), 1, data)


def check_aead(line, toks):
    """returns list of (kind, msg)"""
    f = line.split()
    op = f[0]
    rounds = int(f[1]); key = expand(f[2]); nonce = expand(f[3])
    hx = lambda b: b.hex() or '-'
    if op == 'aead_enc':
        aad, pt = expand(f[4]), expand(f[5])
        ct, tag = o.aead_encrypt(key, nonce, aad, pt, rounds)
        if toks != [hx(ct), hx(tag)]:
            kind = 'ciphertext' if toks[:1] != [hx(ct)] else 'tag'
            return [('oneshot-encrypt-%s' % kind, 'expected %s %s got %s' % (hx(ct)[:64], hx(tag), ' '.join(toks)[:120]))]
        return []
    if op == 'aead_dec':
        aad, ct, tag = expand(f[4]), expand(f[5]), expand(f[6])
        good = tag_of(rounds, key, nonce, aad, ct) == tag
        if len(toks) != 2 or toks[1] not in ('T', 'F'):
            return [('oneshot-decrypt-shape', 'unexpected output %r' % toks[:3])]
        v = []
        if (toks[1] == 'T') != good:
            v.append(('oneshot-accepts-wrong-tag' if toks[1] == 'T' else 'oneshot-rejects-right-tag', 'verdict %s, tag is %s' % (toks[1], 'correct' if good else 'wrong')))
        if good and toks[0] != hx(stream(rounds, key, nonce, ct)):
            v.append(('oneshot-decrypt-plaintext', 'plaintext mismatch'))
        return v
    if op == 'aead_inc':
        aad = b''; data_in = b''; mode = None; zero_aad = 0; zero_ct = 0
        ti = 0
        v = []
        for s in f[4:]:
            p = s.split('.')
            if p[0] == 'a':
                aad += expand(p[1])
            elif p[0] == 'az':
                zero_aad += int(p[1])       # that many zero bytes of AAD, fed in chunks; never materialised here
            elif p[0] in ('E', 'D'):
                mode = p[0]
            elif p[0] == 'dz':
                # zero_ct zero bytes of ciphertext: the plaintext is the keystream from block 1 on; never materialised here
                zero_ct = int(p[1])
                assert mode == 'D' and not data_in and zero_ct >= 128 and zero_ct % 64 == 0
                first = o.chacha_ietf_block(key, nonce, 1, rounds)
                last = o.chacha_ietf_block(key, nonce, zero_ct // 64, rounds)
                t = toks[ti] if ti < len(toks) else None; ti += 1
                if t != '%s:%s' % (first.hex(), last.hex()):
                    v.append(('incremental-decrypt-bytes', '%d zero bytes of ciphertext: first/last plaintext block expected %s../%s.. got %s' % (zero_ct, first.hex()[:16], last.hex()[:16], str(t)[:80])))
                    return v
            elif p[0] in ('ex', 'dx'):
                # mismatched output length: must be refused, and must leave the context exactly as it was
                t = toks[ti] if ti < len(toks) else None; ti += 1
                if t != 'PANIC':
                    v.append(('incremental-mismatched-buffer-accepted', 'step %s returned %s' % (s, str(t)[:40])))
                    return v
            elif p[0] in ('e', 'em', 'd', 'dm'):
                d = expand(p[1])
                # absolute stream position = len(data so far)
                full = stream(rounds, key, nonce, data_in + d)
                exp = full[len(data_in):]
                t = toks[ti] if ti < len(toks) else None; ti += 1
                if t != hx(exp):
                    v.append(('incremental-%s-bytes' % ('encrypt' if mode == 'E' else 'decrypt'), 'step %s: expected %s.. got %s..' % (p[0], hx(exp)[:48], str(t)[:48])))
                    return v
                data_in += d
            elif p[0] == 'fin':
                if zero_ct:
                    import struct
                    assert not zero_aad and mode == 'D'
                    otk = o.chacha_ietf_block(key, nonce, 0, rounds)[:32]
                    # MAC input: padded AAD, then zero_ct zero bytes (a multiple of 16), then the two lengths
                    r_ = int.from_bytes(otk[:16], 'little') & 0x0ffffffc0ffffffc0ffffffc0fffffff
                    P_ = (1 << 130) - 5
                    acc = 0
                    ad = aad + o.pad16(aad)
                    for i in range(0, len(ad), 16):
                        acc = (acc + int.from_bytes(ad[i:i + 16] + b'\x01', 'little')) * r_ % P_
                    n = zero_ct // 16
                    # acc after n all-zero blocks: acc*r^n + 2^128*(r + ... + r^n)
                    if r_ == 0:
                        acc = 0
                    elif r_ == 1:
                        acc = (acc + (n << 128)) % P_
                    else:
                        acc = (acc * pow(r_, n, P_) + (1 << 128) * r_ * (pow(r_, n, P_) - 1) * pow(r_ - 1, P_ - 2, P_)) % P_
                    lb = struct.pack('<QQ', len(aad), zero_ct)
                    acc = (acc + int.from_bytes(lb + b'\x01', 'little')) * r_ % P_
                    want = ((acc + int.from_bytes(otk[16:], 'little')) & ((1 << 128) - 1)).to_bytes(16, 'little')
                    good = want == expand(p[1])
                    t = toks[ti] if ti < len(toks) else None; ti += 1
                    if (t == 'T') != good:
                        v.append(('incremental-accepts-wrong-tag' if t == 'T' else 'incremental-rejects-right-tag', '%d zero bytes of ciphertext: verdict %s, tag is %s' % (zero_ct, t, 'correct' if good else 'wrong')))
                    continue
                if zero_aad:
                    assert not aad
                    ct = stream(rounds, key, nonce, data_in) if mode == 'E' else data_in
                    import struct
                    otk = o.chacha_ietf_block(key, nonce, 0, rounds)[:32]
                    nblk = (zero_aad + 15) // 16
                    want = o.poly1305_zero_prefix(otk, nblk, ct + o.pad16(ct) + struct.pack('<QQ', zero_aad, len(ct)))
                    if mode == 'E':
                        got = toks[ti:ti + 2]; ti += 2
                        if got != [hx(want), hx(want)]:
                            v.append(('incremental-encrypt-tag', 'AAD of %d zero bytes: expected %s got %r' % (zero_aad, hx(want), got)))
                    else:
                        good = want == expand(p[1])
                        t = toks[ti] if ti < len(toks) else None; ti += 1
                        if (t == 'T') != good:
                            v.append(('incremental-accepts-wrong-tag' if t == 'T' else 'incremental-rejects-right-tag', 'AAD of %d zero bytes: verdict %s, tag is %s' % (zero_aad, t, 'correct' if good else 'wrong')))
                    continue
                if mode == 'E':
                    ct = stream(rounds, key, nonce, data_in)
                    tag = hx(tag_of(rounds, key, nonce, aad, ct))
                    got = toks[ti:ti + 2]; ti += 2
                    if got != [tag, tag]:
                        v.append(('incremental-encrypt-tag', 'expected %s got %r' % (tag, got)))
                else:
                    good = tag_of(rounds, key, nonce, aad, data_in) == expand(p[1])
                    t = toks[ti] if ti < len(toks) else None; ti += 1
                    if t not in ('T', 'F'):
                        v.append(('incremental-decrypt-shape', 'unexpected %r' % t))
                    elif (t == 'T') != good:
                        v.append(('incremental-accepts-wrong-tag' if t == 'T' else 'incremental-rejects-right-tag', 'verdict %s, tag is %s' % (t, 'correct' if good else 'wrong')))
        if ti != len(toks):
            v.append(('incremental-extra-output', 'tokens %r' % toks[ti:ti + 3]))
        return v
    raise KeyError(op)
