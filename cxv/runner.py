"""Generic machinery: builds, driver execution, parallel checking, verdicts, evidence, replay."""
import fcntl
import importlib
import json
import multiprocessing as mp
import os
import shutil
import subprocess
import sys
import time

ROOT = os.path.dirname(os.path.dirname(os.path.abspath(__file__)))
REPO = os.environ.get('CXV_REPO', '/repo')
BUILD = os.path.join(ROOT, '.build')
WORK = os.path.join(ROOT, '.work')
HARNESS = os.path.join(ROOT, 'harness')
NPROC = int(os.environ.get('CXV_JOBS', str(os.cpu_count() or 4)))


class Inconclusive(Exception):
    pass


# ------------------------------------------------------------------ build matrix
# name -> (toolchain, profile, rustflags, cargo features, extra cargo args)
CONFIGS = {
    'rel': ('', 'release', '', '', []),
    'chk': ('', 'release', '-C overflow-checks=on -C debug-assertions=on', '', []),
    'dbg': ('', 'dev', '', '', []),
    'sse41': ('', 'release', '-C target-feature=+sse4.1', '', []),
    'avx': ('', 'release', '-C target-feature=+avx', '', []),
    'avx2': ('', 'release', '-C target-feature=+avx2', '', []),
    'shani': ('', 'release', '-C target-feature=+sha,+sse4.1', '', []),     # where a SHA-NI block function would be selected
    'os': ('', 'release', '-C opt-level=s', '', []),             # size-optimised build (loops that opt-level 3 vectorises stay loops)
    'cgu1': ('', 'release', '-C codegen-units=1', '', []),      # whole-crate optimisation (what codegen-units = 1 / LTO release profiles get)
    'curveonly': ('', 'release', '', 'curveonly', ['--no-default-features']),   # the library compiled with the ed25519 + x25519 features only (C19 victim)
    'f32': ('', 'release', '', 'f32', []),
    'f32cap': ('', 'release', '--cap-lints=warn', 'f32', []),
    'f32chk': ('', 'release', '-C overflow-checks=on -C debug-assertions=on', 'f32', []),
    'asan': ('+nightly', 'release', '-Zsanitizer=address -Cforce-frame-pointers=yes', '', ['--target', 'x86_64-unknown-linux-gnu']),
    'asan-avx2': ('+nightly', 'release', '-Zsanitizer=address -Cforce-frame-pointers=yes -C target-feature=+avx2', '', ['--target', 'x86_64-unknown-linux-gnu']),
}


def cargo_env(rustflags=''):
    env = dict(os.environ)
    env['CARGO_NET_OFFLINE'] = 'true'
    env.pop('RUSTFLAGS', None)
    if rustflags:
        env['RUSTFLAGS'] = rustflags
    env.pop('CARGO_TARGET_DIR', None)
    return env


def _ensure_lock():
    link = os.path.join(HARNESS, '.repo')
    if not os.path.islink(link) or os.readlink(link) != REPO:
        if os.path.islink(link) or os.path.exists(link):
            os.remove(link)
        os.symlink(REPO, link)
    lock = os.path.join(HARNESS, 'Cargo.lock')
    if not os.path.exists(lock):
        src = os.path.join(REPO, 'Cargo.lock')
        if os.path.exists(src):
            shutil.copy(src, lock)


def build(cfg, binary='drive', allow_fail=False):
    """Build the harness against the current /repo tree. Returns the binary path.
    A build failure is INCONCLUSIVE (never a violation) unless allow_fail, in which case (None, log) is returned."""
    tc, profile, rf, feats, extra = CONFIGS[cfg]
    os.makedirs(BUILD, exist_ok=True)
    _ensure_lock()
    tdir = os.path.join(BUILD, cfg)
    cmd = ['cargo'] + ([tc] if tc else []) + ['build', '--manifest-path', os.path.join(HARNESS, 'Cargo.toml'),
                                                '--target-dir', tdir, '--bin', binary]
    if profile == 'release':
        cmd.append('--release')
    if feats:
        cmd += ['--features', feats]
    cmd += extra
    lockf = open(os.path.join(BUILD, cfg + '.lock'), 'w')
    fcntl.flock(lockf, fcntl.LOCK_EX)
    try:
        p = subprocess.run(cmd, env=cargo_env(rf), stdout=subprocess.PIPE, stderr=subprocess.STDOUT, text=True, timeout=1800)
    except subprocess.TimeoutExpired:
        raise Inconclusive('build %s timed out' % cfg)
    finally:
        fcntl.flock(lockf, fcntl.LOCK_UN)
        lockf.close()
    if p.returncode != 0:
        if allow_fail:
            return None, p.stdout
        raise Inconclusive('build %s failed:\n%s' % (cfg, p.stdout[-3000:]))
    sub = 'release' if profile == 'release' else 'debug'
    if '--target' in extra:
        path = os.path.join(tdir, extra[extra.index('--target') + 1], sub, binary)
    else:
        path = os.path.join(tdir, sub, binary)
    return (path, p.stdout) if allow_fail else path


def build_many(cfgs, binary='drive'):
    """build several configurations in parallel; returns {cfg: path}"""
    from concurrent.futures import ThreadPoolExecutor
    with ThreadPoolExecutor(max_workers=min(len(cfgs), 6)) as ex:
        futs = {c: ex.submit(build, c, binary) for c in cfgs}
        return {c: f.result() for c, f in futs.items()}


# ------------------------------------------------------------------ driver execution
def workdir(name):
    d = os.path.join(WORK, name)
    os.makedirs(d, exist_ok=True)
    return d


def write_cases(path, lines):
    with open(path, 'w') as f:
        for l in lines:
            f.write(l)
            f.write('\n')


def run_driver(binary, casefile, nlines, tag, nshards=None, wrapper=None, env=None, timeout=3600):
    """Run the driver over casefile in parallel shards. Returns (results: {lineno: [tokens]}, crashes: [(shard, rc, stderr)]).
    Lines whose shard died before reaching them are reported as ['CRASH'] for the first missing one and absent after."""
    if nshards is None:
        nshards = max(1, min(NPROC, nlines // 50 + 1))
    wd = os.path.dirname(casefile)
    procs = []
    for s in range(nshards):
        outp = os.path.join(wd, '%s.out.%d' % (tag, s))
        errp = os.path.join(wd, '%s.err.%d' % (tag, s))
        cmd = (wrapper or []) + [binary, casefile, str(s), str(nshards)]
        fo = open(outp, 'w')
        fe = open(errp, 'w')
        e = dict(os.environ)
        if env:
            e.update(env)
        procs.append((s, subprocess.Popen(cmd, stdout=fo, stderr=fe, env=e), fo, fe, outp, errp))
    results = {}
    crashes = []
    deadline = time.time() + timeout
    for s, p, fo, fe, outp, errp in procs:
        try:
            rc = p.wait(timeout=max(1, deadline - time.time()))
        except subprocess.TimeoutExpired:
            p.kill()
            p.wait()
            fo.close(); fe.close()
            raise Inconclusive('driver shard %d of %s hit the watchdog' % (s, tag))
        fo.close(); fe.close()
        last = None
        with open(outp) as f:
            for ln in f:
                parts = ln.split()
                if not parts:
                    continue
                try:
                    i = int(parts[0])
                except ValueError:
                    continue
                results[i] = parts[1:]
                last = i
        if rc != 0:
            err = open(errp).read()[-2000:]
            crashes.append((s, rc, err, last))
    return results, crashes


def crashed_line(nlines, nshards_used, crash):
    """first line of the crashed shard that has no result"""
    s, rc, err, last = crash
    nxt = s if last is None else last + nshards_used
    return nxt if nxt < nlines else None


# ------------------------------------------------------------------ parallel checking
_CHECK_MOD = None
_CHECK_LINES = None
_CHECK_RES = None


def _check_chunk(rng):
    mod = _CHECK_MOD
    viol = []
    classes = {}
    n = 0
    cov = {}
    for i in rng:
        line = _CHECK_LINES[i]
        toks = _CHECK_RES.get(i)
        if toks is None:
            viol.append((i, 'harness:no-result', 'no result line from the driver'))
            continue
        n += 1
        try:
            r = mod.check(line, toks)
        except Exception as e:  # oracle failure on a line: inconclusive marker
            viol.append((i, 'harness:oracle-exception', '%s: %r' % (type(e).__name__, e)))
            continue
        for sig, msg in (r or []):
            viol.append((i, sig, msg))
        k = mod.classify(line)
        if k is not None:
            if isinstance(k, (list, set, tuple)) and k and isinstance(k, list):
                for kk in k:
                    classes[kk] = classes.get(kk, 0) + 1
            else:
                classes[k] = classes.get(k, 0) + 1
        if hasattr(mod, 'coverage'):
            for ck in mod.coverage(line, toks) or ():
                cov[ck] = cov.get(ck, 0) + 1
    return viol, classes, n, cov


def check_parallel(mod, lines, results):
    global _CHECK_MOD, _CHECK_LINES, _CHECK_RES
    _CHECK_MOD, _CHECK_LINES, _CHECK_RES = mod, lines, results
    n = len(lines)
    nchunks = max(1, min(n, NPROC * 8))
    chunks = [range(c, n, nchunks) for c in range(nchunks)]
    viol = []
    classes = {}
    cov = {}
    total = 0
    if n < 64 or NPROC == 1:
        outs = [_check_chunk(c) for c in chunks]
    else:
        ctx = mp.get_context('fork')
        with ctx.Pool(min(NPROC, nchunks)) as pool:
            outs = pool.map(_check_chunk, chunks)
    for v, c, k, cv in outs:
        viol += v
        total += k
        for a, b in c.items():
            classes[a] = classes.get(a, 0) + b
        for a, b in cv.items():
            cov[a] = cov.get(a, 0) + b
    viol.sort()
    return viol, classes, total, cov


# ------------------------------------------------------------------ known findings
def load_findings():
    p = os.path.join(ROOT, 'known_findings.json')
    if not os.path.exists(p):
        return []
    return json.load(open(p))['findings']


# ------------------------------------------------------------------ verdict / evidence
class Report:
    def __init__(self, pid, tier, seed):
        self.pid, self.tier, self.seed = pid, tier, seed
        self.t0 = time.time()
        self.evaluations = 0
        self.classes = {}
        self.coverage = {}
        self.samples = []
        self.violations = []   # (casefile-label, lineno, sig, msg, line)
        self.known = {}
        self.assumptions = []
        self.rule = ''
        self.exhaustive = None
        self.notes = []

    def add_phase(self, label, mod, lines, results):
        viol, classes, n, cov = check_parallel(mod, lines, results)
        self.evaluations += n
        for k, v in classes.items():
            self.classes[k] = self.classes.get(k, 0) + v
        for k, v in cov.items():
            self.coverage[k] = self.coverage.get(k, 0) + v
        for (i, sig, msg) in viol:
            self.violations.append((label, i, sig, msg, lines[i], results.get(i)))
        return viol

    def finish(self, floors=None, extra_cov=None):
        pid = self.pid
        harness = [v for v in self.violations if v[2].startswith('harness:')]
        real = [v for v in self.violations if not v[2].startswith('harness:')]
        if harness:
            for v in harness[:5]:
                print('INCONCLUSIVE property=%s %s line=%d %s :: %s' % (pid, v[2], v[1], v[3], v[4][:200]))
            self.write_evidence(extra_cov, violations=0, inconclusive=True)
            return 2
        new, known, open_sigs = self._split(real)
        rc = 0
        for sig, vs in known.items():
            print('KNOWN-FINDING: property=%s %s (%d occurrence(s) this run; e.g. %s)' % (pid, open_sigs[sig]['what'], len(vs), vs[0][4][:160]))
        if new:
            os.makedirs(os.path.join(ROOT, 'replays'), exist_ok=True)
            by_sig = {}
            for v in new:
                by_sig.setdefault(v[2], []).append(v)
            n = 0
            for sig, vs in by_sig.items():
                n += 1
                path = os.path.join(ROOT, 'replays', '%s-%d-%d.case' % (pid, self.seed, n))
                with open(path, 'w') as f:
                    f.write('# property=%s signature=%s occurrences=%d tier=%s seed=%d\n' % (pid, sig, len(vs), self.tier, self.seed))
                    for v in vs[:20]:
                        f.write('# phase=%s line=%d: %s\n# observed: %s\n' % (v[0], v[1], v[3], ' '.join(v[5] or [])[:2000]))
                        f.write(v[4] + '\n')
                print('VIOLATION property=%s replay=%s' % (pid, path))
                print('  signature=%s occurrences=%d first: %s' % (sig, len(vs), vs[0][3][:300]))
            rc = 1
        # floors: a run that observed too little is inconclusive
        distinct = len(self.classes)
        if rc == 0 and floors:
            if self.evaluations < floors.get('evaluations', 1) or distinct < floors.get('distinct', 2):
                print('INCONCLUSIVE property=%s observed too little: evaluations=%d distinct=%d floors=%r' % (pid, self.evaluations, distinct, floors))
                self.write_evidence(extra_cov, violations=0, inconclusive=True)
                return 2
            for k, need in floors.get('coverage', {}).items():
                if self.coverage.get(k, 0) < need:
                    print('INCONCLUSIVE property=%s coverage counter %r = %d below floor %d' % (pid, k, self.coverage.get(k, 0), need))
                    self.write_evidence(extra_cov, violations=0, inconclusive=True)
                    return 2
        self.write_evidence(extra_cov, violations=len(new))
        if rc == 0:
            print('HELD property=%s tier=%s seed=%d evaluations=%d distinct_nontrivial=%d wall_s=%.1f' % (
                pid, self.tier, self.seed, self.evaluations, distinct, time.time() - self.t0))
        return rc

    def _split(self, real):
        open_sigs = {f['signature']: f for f in load_findings() if f['property'] == self.pid and f['status'] == 'open'}
        new, known = [], {}
        for v in real:
            if v[2] in open_sigs:
                known.setdefault(v[2], []).append(v)
            else:
                new.append(v)
        self.known = known
        return new, known, open_sigs

    def write_evidence(self, extra_cov=None, violations=0, inconclusive=False):
        cov = {
            'evaluations': int(self.evaluations),
            'distinct_nontrivial': int(len(self.classes)),
            'rule': self.rule,
            'samples': self.samples[:12],
        }
        if self.exhaustive is not None:
            cov['exhaustive'] = self.exhaustive
        counters = {}
        for k, v in sorted(self.coverage.items(), key=lambda kv: str(kv[0])):
            counters[str(k)] = v
        if counters:
            cov['counters'] = counters
        if extra_cov:
            cov.update(extra_cov)
        if self.known:
            cov['known_findings_seen'] = {k: len(v) for k, v in self.known.items()}
        if self.notes:
            cov['notes'] = self.notes
        if inconclusive:
            cov['verdict'] = 'inconclusive'
        else:
            cov['verdict'] = 'violated' if violations else 'held on what was observed'
        ev = {
            'property_id': self.pid,
            'tier': self.tier,
            'seed': int(self.seed),
            'level': 'exploration',
            'coverage': cov,
            'assumptions': self.assumptions,
            'wall_s': round(time.time() - self.t0, 2),
            'violations': int(violations),
        }
        os.makedirs(os.path.join(ROOT, 'evidence'), exist_ok=True)
        with open(os.path.join(ROOT, 'evidence', self.pid + '.json'), 'w') as f:
            json.dump(ev, f, indent=1, default=str)


def gen_rounds(mod, tier, seed, gen=None):
    """quick: one pass of the generator.  thorough: THOROUGH_ROUNDS passes with derived seeds (the directed parts are re-drawn with
    fresh keys / messages, the random parts are new); lines tagged #huge (multi-hundred-MiB messages) only in the first pass."""
    gen = gen or mod.gen
    lines = list(gen(tier, seed))
    if tier == 'thorough':
        rounds = int(os.environ.get('VERIF_THOROUGH_ROUNDS', getattr(mod, 'THOROUGH_ROUNDS', 1)))
        seen = set(lines)
        for k in range(1, rounds):
            for l in gen(tier, seed + 7919 * k):
                if '#huge' in l or l in seen:
                    continue
                seen.add(l)
                lines.append(l)
    return lines


def standard_check(mod, tier, seed, cfg='rel', floors=None, replay=None):
    """gen -> drive (one configuration) -> check -> verdict.  Used by the plain conformance properties."""
    rep = Report(mod.ID, tier, seed)
    rep.rule = mod.RULE
    rep.assumptions = list(getattr(mod, 'ASSUMPTIONS', []))
    bulk_replay = None
    if replay:
        lines = [l.rstrip('\n') for l in open(replay) if l.strip() and not l.startswith('#')]
        bulk_replay = [l for l in lines if l.startswith('bulk ')]
        lines = [l for l in lines if not l.startswith('bulk ')]
    else:
        lines = gen_rounds(mod, tier, seed)
    wd = workdir(mod.ID)
    casefile = os.path.join(wd, 'cases-%s-%d.txt' % (tier, seed))
    write_cases(casefile, lines)
    binary = build(cfg)
    results, crashes = run_driver(binary, casefile, len(lines), 'rel')
    if crashes:
        # a crash of the driver on an in-domain case is itself a finding (C20 decides it); here: inconclusive
        raise Inconclusive('driver crashed: %r' % (crashes[:2],))
    rep.samples = sample_lines(lines)
    rep.add_phase('main', mod, lines, results)
    if hasattr(mod, 'EXHAUSTIVE'):
        rep.exhaustive = mod.EXHAUSTIVE
    extra = None
    if hasattr(mod, 'extra_coverage'):
        extra = mod.extra_coverage(lines, results)
    # the same case file through other builds of the library (cargo features that are not supposed to change this property's results):
    # the tokens must be identical to the default build's, which the phase above has checked against the specification
    for xcfg in getattr(mod, 'EXTRA_CFGS', ()):
        xbin, xlog = build(xcfg, allow_fail=True)
        if xbin is None:
            rep.notes.append('configuration %s does not build; not compared (C17 decides the compile clause)' % xcfg)
            continue
        xres, xcr = run_driver(xbin, casefile, len(lines), xcfg)
        if xcr:
            raise Inconclusive('driver (%s build) crashed: %r' % (xcfg, xcr[:2]))
        nd = 0
        for i, l in enumerate(lines):
            rep.evaluations += 1
            if results.get(i) != xres.get(i):
                nd += 1
                rep.violations.append((xcfg, i, '%s:%s-build:%s:differs-from-default-build' % (mod.ID, xcfg, l.split()[0]),
                                       'default build: %s | %s build: %s' % (' '.join(results.get(i) or ['<none>'])[:80], xcfg, ' '.join(xres.get(i) or ['<none>'])[:80]), l, xres.get(i)))
        extra = dict(extra or {})
        extra.setdefault('other_builds_compared', []).append({'configuration': xcfg, 'records': len(lines), 'differences': nd})
    if hasattr(mod, 'BULK'):
        from . import bulk
        bcov = bulk.for_property(rep, mod, tier, seed, wd, replay_lines=bulk_replay)
        if bcov:
            extra = dict(extra or {})
            extra['bulk_differential'] = bcov
    return rep.finish(None if replay else (floors or getattr(mod, 'FLOORS', None)), extra)


def sample_lines(lines, k=8):
    if not lines:
        return []
    step = max(1, len(lines) // k)
    return [l[:400] for l in lines[::step][:k]]


def load_prop(pid):
    return importlib.import_module('cxv.props.' + pid.lower())


def main(argv):
    import argparse
    ap = argparse.ArgumentParser()
    ap.add_argument('pid')
    ap.add_argument('--tier', default=os.environ.get('VERIF_TIER', 'quick'))
    ap.add_argument('--seed', type=int, default=int(os.environ.get('VERIF_SEED', '1')))
    ap.add_argument('--replay', default=None)
    a = ap.parse_args(argv)
    os.makedirs(WORK, exist_ok=True)
    mod = load_prop(a.pid)
    try:
        from cxv import selftest
        selftest.run_cached(a.pid)
        if hasattr(mod, 'run'):
            rc = mod.run(a.tier, a.seed, a.replay)
        else:
            rc = standard_check(mod, a.tier, a.seed, replay=a.replay)
    except Inconclusive as e:
        print('INCONCLUSIVE property=%s %s' % (a.pid, e))
        rc = 2
    return rc
