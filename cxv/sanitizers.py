"""Sanitizer passes over a case file: Miri (Tree Borrows), valgrind memcheck, AddressSanitizer.
Each returns a dict {tool, ops_executed, reports: [...], inconclusive: str|None}.  A report carries the first in-crate frame."""
import os, re, subprocess, time, shutil
from . import runner as R


def _first_crate_frame(text):
    m = re.search(r'(cryptoxide::[A-Za-z0-9_:<>]+)', text)
    return m.group(1) if m else None


def _src_frame(text):
    m = re.search(r'(' + re.escape(R.REPO.rstrip('/')) + r'/src/[A-Za-z0-9_/.]+:\d+)', text)
    return m.group(1) if m else None


def _collect(path, results):
    """parse '<lineno> tokens...' result lines of a driver shard into results; returns the number of lines"""
    n = 0
    for ln in open(path):
        parts = ln.split()
        if parts and parts[0].isdigit():
            results[int(parts[0])] = parts[1:]
            n += 1
    return n


def differs_from_native(san, native):
    """[(lineno, native tokens, sanitizer-run tokens)] for every case both runs completed with different tokens.
    The code is deterministic and single-threaded: the interpreter / instrumented run must return what the native run returns."""
    out = []
    for i, toks in sorted(san.get('results', {}).items()):
        nat = native.get(i)
        if nat is not None and nat != toks:
            out.append((i, nat, toks))
    return out


def memcheck(binary, casefile, nlines, tag, nshards=None, timeout=3000):
    if not shutil.which('valgrind'):
        return {'tool': 'memcheck', 'ops_executed': 0, 'reports': [], 'inconclusive': 'valgrind not installed'}
    wd = os.path.dirname(casefile)
    nshards = nshards or max(1, min(R.NPROC, nlines // 4 + 1))
    logs = []
    procs = []
    for s in range(nshards):
        log = os.path.join(wd, '%s.vg.%d' % (tag, s))
        out = open(os.path.join(wd, '%s.vgout.%d' % (tag, s)), 'w')
        cmd = ['valgrind', '--tool=memcheck', '--leak-check=no', '--error-exitcode=0', '--num-callers=30', '--log-file=' + log, binary, casefile, str(s), str(nshards)]
        procs.append((subprocess.Popen(cmd, stdout=out, stderr=subprocess.DEVNULL), out, log))
    reports, ops, inc = [], 0, None
    results = {}
    deadline = time.time() + timeout
    for p, out, log in procs:
        try:
            rc = p.wait(timeout=max(1, deadline - time.time()))
        except subprocess.TimeoutExpired:
            p.kill(); p.wait(); inc = 'memcheck watchdog'
            rc = None
        out.close()
        ops += _collect(out.name, results)
        if rc not in (0, None):
            inc = inc or ('memcheck shard exited with %s' % rc)
        if os.path.exists(log):
            txt = open(log).read()
            for blk in re.split(r'\n==\d+== \n', txt):
                if re.search(r'Invalid (read|write)|uninitialised|Conditional jump|Mismatched|Invalid free|overlap', blk):
                    reports.append({'kind': re.search(r'==\d+== ([^\n]+)', blk).group(1), 'crate_frame': _first_crate_frame(blk), 'text': blk[:1500]})
    return {'tool': 'memcheck', 'ops_executed': ops, 'reports': reports, 'inconclusive': inc, 'results': results}


def asan(cfg, casefile, nlines, tag, nshards=None, timeout=3000):
    try:
        binary = R.build(cfg)
    except R.Inconclusive as e:
        return {'tool': cfg, 'ops_executed': 0, 'reports': [], 'inconclusive': 'asan build failed: %s' % str(e)[-300:]}
    wd = os.path.dirname(casefile)
    nshards = nshards or max(1, min(R.NPROC, nlines // 20 + 1))
    procs = []
    env = dict(os.environ); env['ASAN_OPTIONS'] = 'detect_leaks=0:abort_on_error=0:halt_on_error=1:exitcode=77'
    for s in range(nshards):
        out = open(os.path.join(wd, '%s.asanout.%d' % (tag, s)), 'w')
        err = open(os.path.join(wd, '%s.asanerr.%d' % (tag, s)), 'w')
        procs.append((subprocess.Popen([binary, casefile, str(s), str(nshards)], stdout=out, stderr=err, env=env), out, err))
    reports, ops, inc = [], 0, None
    results = {}
    deadline = time.time() + timeout
    for p, out, err in procs:
        try:
            rc = p.wait(timeout=max(1, deadline - time.time()))
        except subprocess.TimeoutExpired:
            p.kill(); p.wait(); rc = None; inc = 'asan watchdog'
        out.close(); err.close()
        ops += _collect(out.name, results)
        etxt = open(err.name).read()
        if 'AddressSanitizer' in etxt:
            reports.append({'kind': (re.search(r'ERROR: AddressSanitizer: ([^\n]+)', etxt) or [None, 'asan report'])[1], 'crate_frame': _first_crate_frame(etxt), 'text': etxt[:1500]})
        elif rc not in (0, None):
            # a crash without an ASan report (SIGSEGV/SIGILL/abort): reported as a crash
            reports.append({'kind': 'crash rc=%s' % rc, 'crate_frame': _first_crate_frame(etxt), 'text': etxt[-800:]})
    return {'tool': cfg, 'ops_executed': ops, 'reports': reports, 'inconclusive': inc, 'results': results}


def miri(casefile, nlines, tag, target_features='', extra_flags='', features='', nshards=None, timeout=3000):
    """cargo +nightly miri run, sharded. Tree Borrows; isolation disabled so that the case file can be read."""
    wd = os.path.dirname(casefile)
    nshards = nshards or max(1, min(R.NPROC, nlines // 3 + 1))
    tdir = os.path.join(R.BUILD, 'miri' + (target_features.replace('+', '-').replace(',', '') if target_features else ''))
    env = R.cargo_env('-C target-feature=' + target_features if target_features else '')
    env['MIRIFLAGS'] = ('-Zmiri-tree-borrows -Zmiri-disable-isolation ' + extra_flags).strip()
    base = ['cargo', '+nightly', 'miri', 'run', '--manifest-path', os.path.join(R.HARNESS, 'Cargo.toml'), '--target-dir', tdir, '--bin', 'drive', '-q']
    if features:
        base += ['--features', features]
    # warm the build once (sequential) so that shards do not race on the target dir
    warm = os.path.join(wd, tag + '.empty')
    open(warm, 'w').close()
    try:
        w = subprocess.run(base + ['--', warm], env=env, stdout=subprocess.PIPE, stderr=subprocess.STDOUT, text=True, timeout=1500)
    except subprocess.TimeoutExpired:
        return {'tool': 'miri', 'ops_executed': 0, 'reports': [], 'inconclusive': 'miri build watchdog'}
    if w.returncode != 0:
        return {'tool': 'miri', 'ops_executed': 0, 'reports': [], 'inconclusive': 'miri failed to start: ' + w.stdout[-600:]}
    procs = []
    for s in range(nshards):
        out = open(os.path.join(wd, '%s.miriout.%d' % (tag, s)), 'w')
        err = open(os.path.join(wd, '%s.mirierr.%d' % (tag, s)), 'w')
        procs.append((subprocess.Popen(base + ['--', casefile, str(s), str(nshards)], stdout=out, stderr=err, env=env), out, err, s))
    reports, ops, inc = [], 0, None
    results = {}
    deadline = time.time() + timeout
    for p, out, err, s in procs:
        try:
            rc = p.wait(timeout=max(1, deadline - time.time()))
        except subprocess.TimeoutExpired:
            p.kill(); p.wait(); rc = None; inc = 'miri watchdog (shard %d)' % s
        out.close(); err.close()
        last = None
        for ln in open(out.name):
            parts = ln.split()
            if parts and parts[0].isdigit():
                results[int(parts[0])] = parts[1:]; last = int(parts[0]); ops += 1
        etxt = open(err.name).read()
        if 'Undefined Behavior' in etxt or 'error: unsupported operation' in etxt or (rc not in (0, None)):
            nxt = s if last is None else last + nshards
            kind = (re.search(r'error: ([^\n]+)', etxt) or [None, 'miri exit %s' % rc])[1]
            if 'unsupported operation' in kind:
                inc = inc or ('miri: ' + kind)
            else:
                reports.append({'kind': kind, 'crate_frame': _src_frame(etxt) or _first_crate_frame(etxt), 'line': nxt, 'text': etxt[:2000]})
    return {'tool': 'miri' + (':' + target_features if target_features else ''), 'ops_executed': ops, 'reports': reports, 'inconclusive': inc, 'results': results}
