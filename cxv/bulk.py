"""Bulk differential monitor for the curve arithmetic.

A `bulk <kind> <seed> <start> <count> <block>` case line makes the driver execute `count` calls on inputs derived from
(seed, call index) and log one 64-bit hash per block of calls plus the raw output of the first call of every block.
Two independently written implementations inside the crate - the 51/56-bit-limb (default) and the 25.5/21-bit-limb
(`force-32bits`) backends - execute the same line; rare-carry defects (probability 2^-20 .. 2^-30 per call, out of reach of
any per-call Python oracle at that volume) show up as a differing block hash.  Every differing block is then narrowed to
the exact calls (block = 1) and the Python specification model decides which backend is wrong; the sampled raw outputs are
checked against the specification model directly, so agreement between the backends is never the only evidence."""
import os
from .codec import prng_bytes
from . import oracle as o
from . import runner as R

LEN = {'x25519': 64, 'sc_reduce': 64, 'fe_mix': 64, 'x25519_base': 32, 'fe_inv': 32, 'ed_sign': 96, 'ge_dsm': 96, 'poly1305': 130, 'sc_muladd': 96, 'poly1305x': 257}
# kinds whose model is cheap enough to recompute whole blocks (every call), not only the sampled ones
CHEAP = {'sc_reduce', 'fe_mix', 'poly1305', 'sc_muladd', 'poly1305x'}
M128 = (1 << 128) - 1
P, L = o.P, o.L
M255 = (1 << 255) - 1


def bulk_input(seed, i, ln):
    r = prng_bytes(((seed << 32) + i) & ((1 << 64) - 1), 2 * ln + 8)
    mode = r[2 * ln] & 3
    if mode < 2:
        return r[:ln]
    out = bytearray()
    j = 0
    while len(out) < ln:
        c = r[ln + j]; j += 1
        runlen = (c & 7) + 1
        kind = (c >> 3) & 3
        for _ in range(runlen):
            if kind == 0:
                b = 0
            elif kind == 1:
                b = 0xff
            elif kind == 2:
                b = r[len(out) % ln]
            else:
                b = 0 if mode == 3 else r[len(out) % ln]
            out.append(b)
    return bytes(out[:ln])


def _fe(b):
    return (int.from_bytes(b, 'little') & M255) % P


def _le(v):
    return (v % P).to_bytes(32, 'little')


def spec(kind, inp):
    """specification value of one call (bytes)"""
    if kind == 'x25519':
        return o.x25519(inp[:32], inp[32:64])
    if kind == 'x25519_base':
        return o.x25519(inp[:32], (9).to_bytes(32, 'little'))
    if kind == 'ed_sign':
        mlen = inp[32] & 63
        msg = inp[33:33 + mlen]
        pk, sig = o.ed_sign(inp[:32], msg)
        return pk + sig + b'\x01'
    if kind == 'sc_reduce':
        return (int.from_bytes(inp[:64], 'little') % L).to_bytes(32, 'little')
    if kind == 'sc_muladd':
        a, b = int.from_bytes(inp[:32], 'little'), int.from_bytes(inp[32:64], 'little')
        c = int.from_bytes(inp[64:96], 'little') & ((1 << 252) - 1)
        return ((a * b + c) % L).to_bytes(32, 'little')
    if kind == 'poly1305x':
        key = bytearray(inp[:32])
        for j in range(16):
            if inp[129] & 1 == 1 or inp[130 + j] & 3 != 0:
                key[j] = 0xff
        nblk = 2 + inp[32] % 5
        msg = bytearray(inp[33:33 + 16 * nblk])
        for j in range(len(msg)):
            if inp[161 + j] & 3 != 0:
                msg[j] = 0xff
        return o.poly1305(bytes(key), bytes(msg))
    if kind == 'poly1305':
        mlen = inp[32] % 97
        return o.poly1305(inp[:32], inp[34:34 + mlen])
    if kind == 'fe_mix':
        x, y = _fe(inp[:32]), _fe(inp[32:64])
        t = (x * y + x * x - y) % P
        u = (t * x - 2 * x * x) % P
        v = 2 * u * u % P
        flags = (t & 1) | ((1 if u else 0) << 1) | ((1 if t == u else 0) << 2)
        return _le(t) + _le(u) + _le(v) + bytes([flags])
    if kind == 'fe_inv':
        x = _fe(inp[:32])
        return _le(pow(x, P - 2, P)) + _le(pow(x, (P - 5) // 8, P))
    if kind == 'ge_dsm':
        m = lambda b: int.from_bytes(b, 'little') & M255
        a, b, ka = m(inp[:32]), m(inp[32:64]), m(inp[64:96])
        A = o.ext_mul(ka, o.ext(o.B))
        return o.ed_encode(o.ext_aff(o.ext_add(o.ext_mul(a, A), o.ext_mul(b, o.ext(o.B)))))
    raise KeyError(kind)


def block_hash(outputs):
    """mirror of the driver's block hash"""
    h = 0
    for pos, ob in enumerate(outputs):
        for j in range(0, len(ob), 16):
            c = int.from_bytes(ob[j:j + 16], 'little')
            h = (h + c * (2 * (pos * 16 + j // 16) + 1)) & M128
    return 'h%032x' % h


def _model_block_job(job):
    kind, seed, start, n, want = job
    got = block_hash([spec(kind, bulk_input(seed, i, LEN[kind])) for i in range(start, start + n)])
    return None if got == want else (kind, seed, start, n)


def line(kind, seed, start, count, block):
    return 'bulk %s %d %d %d %d' % (kind, seed, start, count, block)


def parse(toks):
    """-> (samples {i: hex}, hashes [h...])"""
    samples, hashes = {}, []
    for t in toks or []:
        if t.startswith('h') and ':' not in t:
            hashes.append(t)
        else:
            i, hx = t.split(':')
            samples[int(i)] = hx
    return samples, hashes


def check_samples(kind, seed, toks, stride=1):
    """spec-check the raw sample outputs of a bulk result; returns [(i, expected hex, got hex)]"""
    bad = []
    samples, _ = parse(toks)
    for n, (i, hx) in enumerate(sorted(samples.items())):
        if n % stride:
            continue
        exp = spec(kind, bulk_input(seed, i, LEN[kind])).hex()
        if exp != hx:
            bad.append((i, exp, hx))
    return bad


def _check_sample_job(job):
    kind, seed, i, hx = job
    exp = spec(kind, bulk_input(seed, i, LEN[kind])).hex()
    return None if exp == hx else (kind, seed, i, exp, hx)


def run_differential(rep, sig_prefix, plan, bins, wd, tag, judge='both', sample_cap=4000, model_calls=1 << 20):
    """plan: [(kind, seed, start, count, block)].  bins: {'rel': path, 'f32': path}.
    judge = 'both': any disagreement or spec mismatch is reported (C17);
    judge = 'rel' : only what the specification model confirms wrong in the default build is reported (C12/C13/C15).
    Returns coverage dict."""
    import multiprocessing as mp
    lines = []
    for kind, seed, start0, count, block in plan:
        # split every plan entry into pieces so the shards stay balanced
        per = max(block, (count // (R.NPROC * 2) // block) * block)
        s = 0
        while s < count:
            n = min(per, count - s)
            lines.append((kind, seed, start0 + s, n, block))
            s += n
    casefile = os.path.join(wd, 'bulk-%s.txt' % tag)
    R.write_cases(casefile, [line(*l) for l in lines])
    res = {}
    for cfg, b in bins.items():
        r, crashes = R.run_driver(b, casefile, len(lines), 'bulk-' + cfg, nshards=min(R.NPROC, len(lines)), timeout=7200)
        if crashes:
            raise R.Inconclusive('bulk driver (%s) crashed: %r' % (cfg, crashes[:1]))
        res[cfg] = r
    cov = {'calls_per_backend': 0, 'blocks_compared': 0, 'blocks_differing': 0, 'samples_checked_against_spec': 0, 'kinds': {},
           'calls_recomputed_by_the_model_in_full': 0}
    jobs = []
    narrow = []
    mjobs = []
    budget = {k: model_calls for k in CHEAP}
    for idx, (kind, seed, start, n, block) in enumerate(lines):
        a = res['rel'].get(idx)
        b = res['f32'].get(idx) if 'f32' in res else None
        if a is None or ('f32' in res and b is None):
            raise R.Inconclusive('bulk line %d has no result' % idx)
        sa, ha = parse(a)
        cov['calls_per_backend'] += n
        cov['kinds'][kind] = cov['kinds'].get(kind, 0) + n
        rep.evaluations += n * len(res)
        rep.classes[('bulk', kind, seed, start)] = 1
        if b is not None:
            sb, hb = parse(b)
            cov['blocks_compared'] += len(ha)
            for k, (x, y) in enumerate(zip(ha, hb)):
                if x != y:
                    cov['blocks_differing'] += 1
                    narrow.append((kind, seed, start + k * block, min(block, n - k * block)))
        for i, hx in sa.items():
            jobs.append((kind, seed, i, hx))
        if kind in CHEAP:
            for k, hv in enumerate(ha):
                nb = min(block, n - k * block)
                if budget[kind] >= nb:
                    budget[kind] -= nb
                    mjobs.append((kind, seed, start + k * block, nb, hv))
    # spec check of the sampled raw outputs (of the default build; the other backend is tied to it by the block hashes)
    if len(jobs) > sample_cap:
        step = len(jobs) / float(sample_cap)
        jobs = [jobs[int(k * step)] for k in range(sample_cap)]
    ctx = mp.get_context('fork')
    with ctx.Pool(R.NPROC) as pool:
        outs = pool.map(_check_sample_job, jobs, chunksize=8)
        mouts = pool.map(_model_block_job, mjobs, chunksize=1) if mjobs else []
    cov['samples_checked_against_spec'] = len(jobs)
    cov['calls_recomputed_by_the_model_in_full'] = sum(j[3] for j in mjobs)
    for bad in mouts:
        if bad:
            cov['blocks_differing'] += 1
            narrow.append(bad)
    for bad in outs:
        if bad:
            kind, seed, i, exp, hx = bad
            rep.violations.append(('bulk-spec', -1, '%s:bulk:%s:default-build-differs-from-spec' % (sig_prefix, kind),
                                   'call %d of seed %d: expected %s.. got %s..' % (i, seed, exp[:64], hx[:64]), line(kind, seed, i, 1, 1), None))
    # narrowing of differing blocks
    if narrow:
        nl = [line(k, s, st, n, 1) for (k, s, st, n) in narrow[:8]]
        nfile = os.path.join(wd, 'bulk-narrow-%s.txt' % tag)
        R.write_cases(nfile, nl)
        nres = {cfg: R.run_driver(b, nfile, len(nl), 'bulkn-' + cfg, nshards=min(R.NPROC, len(nl)))[0] for cfg, b in bins.items()}
        for idx, (k, s, st, n) in enumerate(narrow[:8]):
            ra, _ = parse(nres['rel'].get(idx))
            rb = parse(nres['f32'].get(idx))[0] if 'f32' in nres else {}
            found = 0
            for i in sorted(ra):
                if ('f32' in nres and ra[i] != rb.get(i)) or k in CHEAP:
                    exp = spec(k, bulk_input(s, i, LEN[k])).hex()
                    wrong = [c for c, v in (('rel', ra[i]),) + ((('f32', rb.get(i)),) if 'f32' in nres else ()) if v != exp]
                    if not wrong:
                        continue
                    found += 1
                    inp = bulk_input(s, i, LEN[k]).hex()
                    msg = 'call %d (input %s): spec %s.. default build %s.. 32-bit backend %s..' % (i, inp, exp[:40], ra[i][:40], (rb.get(i) or 'n/a')[:40])
                    if 'rel' in wrong:
                        rep.violations.append(('bulk-diff', -1, '%s:bulk:%s:default-build-differs-from-spec' % (sig_prefix, k), msg, line(k, s, i, 1, 1), None))
                    if 'f32' in wrong and judge == 'both':
                        rep.violations.append(('bulk-diff', -1, '%s:bulk:%s:32-bit-backend-differs-from-spec' % (sig_prefix, k), msg, line(k, s, i, 1, 1), None))
                    if found >= 3:
                        break
            if not found and judge == 'both':
                rep.violations.append(('bulk-diff', -1, '%s:bulk:%s:block-hash-differs' % (sig_prefix, k), 'block at call %d differs (between the backends or from the model) but no single call does' % st, line(k, s, st, n, n), None))
    return cov


def plan_from_replay(lines):
    out = []
    for l in lines:
        f = l.split()
        if f and f[0] == 'bulk':
            out.append((f[1], int(f[2]), int(f[3]), int(f[4]), int(f[5])))
    return out


def for_property(rep, mod, tier, seed, wd, replay_lines=None, judge='rel'):
    """bulk phase of a standard check: plan = mod.BULK[tier] = [(kind, count, block)]"""
    if replay_lines is not None:
        plan = plan_from_replay(replay_lines)
    else:
        plan = [(k, (seed * 1000 + n) % (1 << 31), 0, c, b) for n, (k, c, b) in enumerate(mod.BULK.get(tier, []))]
    if not plan:
        return None
    bins = {'rel': R.build('rel')}
    f32 = None
    if getattr(mod, 'BULK_SECOND_BACKEND', True):
        f32, log = R.build('f32', allow_fail=True)
        if f32 is not None:
            bins['f32'] = f32
    cov = run_differential(rep, mod.ID, plan, bins, wd, '%s-%d' % (tier, seed), judge=judge, model_calls=(1 << 23) if tier == 'thorough' else (1 << 20))
    if not getattr(mod, 'BULK_SECOND_BACKEND', True):
        cov['second_implementation'] = 'none needed: every call of every block is recomputed by the Python model'
    else:
        cov['second_implementation'] = 'force-32bits backend' if f32 is not None else 'not available (force-32bits build failed): samples checked against the specification model only'
    return cov
