import hashlib, hmac as pyhmac, struct

M32 = 0xffffffff
def rol32(x, n): return ((x << n) | (x >> (32 - n))) & M32

# ---------------- ChaCha ----------------
def chacha_qr(s, a, b, c, d):
    s[a] = (s[a] + s[b]) & M32; s[d] = rol32(s[d] ^ s[a], 16)
    s[c] = (s[c] + s[d]) & M32; s[b] = rol32(s[b] ^ s[c], 12)
    s[a] = (s[a] + s[b]) & M32; s[d] = rol32(s[d] ^ s[a], 8)
    s[c] = (s[c] + s[d]) & M32; s[b] = rol32(s[b] ^ s[c], 7)

def chacha_perm(state, rounds):
    s = list(state)
    for _ in range(rounds // 2):
        chacha_qr(s, 0, 4, 8, 12); chacha_qr(s, 1, 5, 9, 13); chacha_qr(s, 2, 6, 10, 14); chacha_qr(s, 3, 7, 11, 15)
        chacha_qr(s, 0, 5, 10, 15); chacha_qr(s, 1, 6, 11, 12); chacha_qr(s, 2, 7, 8, 13); chacha_qr(s, 3, 4, 9, 14)
    return s

def chacha_init(key, tail16):
    if len(key) == 32: c = b"expand 32-byte k"; k = key
    else: c = b"expand 16-byte k"; k = key + key
    return list(struct.unpack('<4I', c)) + list(struct.unpack('<8I', k)) + list(struct.unpack('<4I', tail16))

def chacha_block(key, tail16, rounds):
    st = chacha_init(key, tail16)
    w = chacha_perm(st, rounds)
    return struct.pack('<16I', *[(a + b) & M32 for a, b in zip(w, st)])

def chacha_ietf_block(key, nonce12, n, rounds=20):
    return chacha_block(key, struct.pack('<I', n & M32) + nonce12, rounds)

def chacha_orig_block(key, nonce8, n, rounds=20):
    return chacha_block(key, struct.pack('<Q', n & (2**64 - 1)) + nonce8, rounds)

def hchacha(key, nonce16, rounds=20):
    w = chacha_perm(chacha_init(key, nonce16), rounds)
    return struct.pack('<8I', *(w[0:4] + w[12:16]))

def xchacha_block(key, nonce24, n, rounds=20):
    sub = hchacha(key, nonce24[:16], rounds)
    return chacha_ietf_block(sub, b'\0\0\0\0' + nonce24[16:], n, rounds)

# ---------------- Salsa ----------------
def salsa_perm(x, rounds):
    x = list(x)
    def qr(a, b, c, d):
        x[b] ^= rol32((x[a] + x[d]) & M32, 7)
        x[c] ^= rol32((x[b] + x[a]) & M32, 9)
        x[d] ^= rol32((x[c] + x[b]) & M32, 13)
        x[a] ^= rol32((x[d] + x[c]) & M32, 18)
    for _ in range(rounds // 2):
        qr(0, 4, 8, 12); qr(5, 9, 13, 1); qr(10, 14, 2, 6); qr(15, 3, 7, 11)
        qr(0, 1, 2, 3); qr(5, 6, 7, 4); qr(10, 11, 8, 9); qr(15, 12, 13, 14)
    return x

def salsa_init(key, in16):
    if len(key) == 32: c = b"expand 32-byte k"; k0, k1 = key[:16], key[16:]
    else: c = b"expand 16-byte k"; k0 = k1 = key
    C = struct.unpack('<4I', c); K0 = struct.unpack('<4I', k0); K1 = struct.unpack('<4I', k1); I = struct.unpack('<4I', in16)
    return [C[0], K0[0], K0[1], K0[2], K0[3], C[1], I[0], I[1], I[2], I[3], C[2], K1[0], K1[1], K1[2], K1[3], C[3]]

def salsa_block(key, nonce8, n, rounds=20):
    st = salsa_init(key, nonce8 + struct.pack('<Q', n & (2**64 - 1)))
    w = salsa_perm(st, rounds)
    return struct.pack('<16I', *[(a + b) & M32 for a, b in zip(w, st)])

def hsalsa(key, nonce16, rounds=20):
    w = salsa_perm(salsa_init(key, nonce16), rounds)
    return struct.pack('<8I', w[0], w[5], w[10], w[15], w[6], w[7], w[8], w[9])

def xsalsa_block(key, nonce24, n, rounds=20):
    return salsa_block(hsalsa(key, nonce24[:16], rounds), nonce24[16:], n, rounds)

def xor_stream(blockfn, start_block, data):
    out = bytearray()
    n = start_block
    for off in range(0, len(data), 64):
        ks = blockfn(n); n += 1
        out += bytes(a ^ b for a, b in zip(data[off:off + 64], ks))
    return bytes(out)

# ---------------- Poly1305 / AEAD ----------------
def poly1305(key, msg):
    r = int.from_bytes(key[:16], 'little') & 0x0ffffffc0ffffffc0ffffffc0fffffff
    s = int.from_bytes(key[16:], 'little')
    p = (1 << 130) - 5
    acc = 0
    for i in range(0, len(msg), 16):
        blk = msg[i:i + 16]
        acc = (acc + int.from_bytes(blk + b'\x01', 'little')) * r % p
    return ((acc + s) & ((1 << 128) - 1)).to_bytes(16, 'little')

def poly1305_zero_prefix(key, nzero_blocks, rest):
    """Poly1305 of (16*nzero_blocks zero bytes || rest) without materialising the zeros: the accumulator after n all-zero
    blocks is 2^128 * (r + r^2 + ... + r^n) mod p, a geometric series."""
    r = int.from_bytes(key[:16], 'little') & 0x0ffffffc0ffffffc0ffffffc0fffffff
    s = int.from_bytes(key[16:], 'little')
    p = (1 << 130) - 5
    n = nzero_blocks
    if r == 0:
        acc = 0
    elif r == 1:
        acc = (n << 128) % p
    else:
        acc = (1 << 128) * r * (pow(r, n, p) - 1) * pow(r - 1, p - 2, p) % p
    for i in range(0, len(rest), 16):
        acc = (acc + int.from_bytes(rest[i:i + 16] + b'\x01', 'little')) * r % p
    return ((acc + s) & ((1 << 128) - 1)).to_bytes(16, 'little')

def pad16(b): return b'\0' * ((16 - len(b) % 16) % 16)

def aead_encrypt(key, nonce, aad, pt, rounds=20):
    otk = chacha_ietf_block(key, nonce, 0, rounds)[:32]
    ct = xor_stream(lambda n: chacha_ietf_block(key, nonce, n, rounds), 1, pt)
    mac_data = aad + pad16(aad) + ct + pad16(ct) + struct.pack('<QQ', len(aad), len(ct))
    return ct, poly1305(otk, mac_data)

# ---------------- Curve25519 ----------------
P = 2**255 - 19
A24 = 121665
def x25519(k, u):
    k = bytearray(k); k[0] &= 248; k[31] &= 127; k[31] |= 64
    kn = int.from_bytes(k, 'little')
    x1 = (int.from_bytes(u, 'little') & ((1 << 255) - 1)) % P
    x2, z2, x3, z3, swap = 1, 0, x1, 1, 0
    for t in range(254, -1, -1):
        kt = (kn >> t) & 1
        swap ^= kt
        if swap: x2, x3, z2, z3 = x3, x2, z3, z2
        swap = kt
        A = (x2 + z2) % P; AA = A * A % P; B = (x2 - z2) % P; BB = B * B % P
        E = (AA - BB) % P; C = (x3 + z3) % P; D = (x3 - z3) % P
        DA = D * A % P; CB = C * B % P
        x3 = (DA + CB) ** 2 % P; z3 = x1 * (DA - CB) ** 2 % P
        x2 = AA * BB % P; z2 = E * (AA + A24 * E) % P
    if swap: x2, x3, z2, z3 = x3, x2, z3, z2
    return (x2 * pow(z2, P - 2, P) % P).to_bytes(32, 'little')

# ---------------- Ed25519 (RFC 8032 style) ----------------
L = 2**252 + 27742317777372353535851937790883648493
D = -121665 * pow(121666, P - 2, P) % P
SQRTM1 = pow(2, (P - 1) // 4, P)
def ed_add(p1, p2):
    x1, y1 = p1; x2, y2 = p2
    t = D * x1 * x2 * y1 * y2 % P
    x3 = (x1 * y2 + x2 * y1) * pow(1 + t, P - 2, P) % P
    y3 = (y1 * y2 + x1 * x2) * pow(1 - t, P - 2, P) % P
    return (x3, y3)
# faster: extended coordinates
def ext(p): return (p[0], p[1], 1, p[0] * p[1] % P)
def ext_add(p, q):
    X1, Y1, Z1, T1 = p; X2, Y2, Z2, T2 = q
    A = (Y1 - X1) * (Y2 - X2) % P; B = (Y1 + X1) * (Y2 + X2) % P
    C = T1 * 2 * D * T2 % P; Dd = Z1 * 2 * Z2 % P
    E = B - A; F = Dd - C; G = Dd + C; H = B + A
    return (E * F % P, G * H % P, F * G % P, E * H % P)
def ext_mul(s, p):
    q = (0, 1, 1, 0)
    while s > 0:
        if s & 1: q = ext_add(q, p)
        p = ext_add(p, p); s >>= 1
    return q
def ext_aff(p):
    zi = pow(p[2], P - 2, P); return (p[0] * zi % P, p[1] * zi % P)
def ed_encode(aff):
    x, y = aff
    return (y | ((x & 1) << 255)).to_bytes(32, 'little')
def recover_x(y, sign):
    # permissive: y already reduced mod P
    x2 = (y * y - 1) * pow(D * y * y + 1, P - 2, P) % P
    if x2 == 0:
        return 0
    x = pow(x2, (P + 3) // 8, P)
    if (x * x - x2) % P != 0: x = x * SQRTM1 % P
    if (x * x - x2) % P != 0: return None
    if (x & 1) != sign: x = P - x
    return x
def ed_decode(b, strict=False):
    yv = int.from_bytes(b, 'little'); sign = yv >> 255; y = yv & ((1 << 255) - 1)
    if strict and y >= P: return None
    y %= P
    x = recover_x(y, sign)
    if x is None: return None
    if strict and x == 0 and sign: return None
    return (x, y)
By = 4 * pow(5, P - 2, P) % P
B = (recover_x(By, 0), By)
def ed_pub_from_scalar(a): return ed_encode(ext_aff(ext_mul(a, ext(B))))
def ed_expand(seed):
    h = hashlib.sha512(seed).digest()
    a = int.from_bytes(h[:32], 'little'); a &= (1 << 254) - 8; a |= (1 << 254)
    return a, h[32:]
def ed_sign(seed, msg):
    a, prefix = ed_expand(seed)
    A = ed_pub_from_scalar(a)
    r = int.from_bytes(hashlib.sha512(prefix + msg).digest(), 'little') % L
    R = ed_encode(ext_aff(ext_mul(r, ext(B))))
    h = int.from_bytes(hashlib.sha512(R + A + msg).digest(), 'little') % L
    S = (r + h * a) % L
    return A, R + S.to_bytes(32, 'little')
def ed_verify_pred(pk, sig, msg):
    A = ed_decode(pk)
    if A is None: return False
    if pk == bytes(32): return False
    S = int.from_bytes(sig[32:], 'little')
    if S >= L: return False
    h = int.from_bytes(hashlib.sha512(sig[:32] + pk + msg).digest(), 'little') % L
    negA = ((-A[0]) % P, A[1])
    Rp = ext_add(ext_mul(S, ext(B)), ext_mul(h, ext(negA)))
    return ed_encode(ext_aff(Rp)) == sig[:32]

# ---------------- Argon2 (RFC 9106) ----------------
M64 = (1 << 64) - 1
def ror64(x, n): return ((x >> n) | (x << (64 - n))) & M64
def a2_H(data, n): return hashlib.blake2b(data, digest_size=n).digest()
def a2_Hprime(data, T):
    inp = struct.pack('<I', T) + data
    if T <= 64: return a2_H(inp, T)
    r = (T + 31) // 32 - 2
    V = a2_H(inp, 64); out = V[:32]
    for _ in range(r - 1):
        V = a2_H(V, 64); out += V[:32]
    out += a2_H(V, T - 32 * r)
    return out
def a2_GB(v, a, b, c, d):
    va, vb, vc, vd = v[a], v[b], v[c], v[d]
    va = (va + vb + 2 * (va & M32) * (vb & M32)) & M64; vd = ror64(vd ^ va, 32)
    vc = (vc + vd + 2 * (vc & M32) * (vd & M32)) & M64; vb = ror64(vb ^ vc, 24)
    va = (va + vb + 2 * (va & M32) * (vb & M32)) & M64; vd = ror64(vd ^ va, 16)
    vc = (vc + vd + 2 * (vc & M32) * (vd & M32)) & M64; vb = ror64(vb ^ vc, 63)
    v[a], v[b], v[c], v[d] = va, vb, vc, vd
def a2_P(v):
    a2_GB(v, 0, 4, 8, 12); a2_GB(v, 1, 5, 9, 13); a2_GB(v, 2, 6, 10, 14); a2_GB(v, 3, 7, 11, 15)
    a2_GB(v, 0, 5, 10, 15); a2_GB(v, 1, 6, 11, 12); a2_GB(v, 2, 7, 8, 13); a2_GB(v, 3, 4, 9, 14)
def a2_G(X, Y):
    R = [a ^ b for a, b in zip(X, Y)]
    Q = list(R)
    for i in range(8):
        v = Q[16 * i:16 * i + 16]; a2_P(v); Q[16 * i:16 * i + 16] = v
    for i in range(8):
        idx = [2 * i, 2 * i + 1, 2 * i + 16, 2 * i + 17, 2 * i + 32, 2 * i + 33, 2 * i + 48, 2 * i + 49,
               2 * i + 64, 2 * i + 65, 2 * i + 80, 2 * i + 81, 2 * i + 96, 2 * i + 97, 2 * i + 112, 2 * i + 113]
        v = [Q[j] for j in idx]; a2_P(v)
        for j, val in zip(idx, v): Q[j] = val
    return [a ^ b for a, b in zip(Q, R)]
def argon2(y, version, t, m, p, T, pwd, salt, key=b'', aad=b''):
    H0 = hashlib.blake2b(struct.pack('<6I', p, T, m, t, version, y) + struct.pack('<I', len(pwd)) + pwd +
                         struct.pack('<I', len(salt)) + salt + struct.pack('<I', len(key)) + key +
                         struct.pack('<I', len(aad)) + aad, digest_size=64).digest()
    mp = 4 * p * (m // (4 * p)); q = mp // p; SL = q // 4
    Bk = [[None] * q for _ in range(p)]
    u64 = lambda b: list(struct.unpack('<128Q', b))
    for i in range(p):
        Bk[i][0] = u64(a2_Hprime(H0 + struct.pack('<II', 0, i), 1024))
        Bk[i][1] = u64(a2_Hprime(H0 + struct.pack('<II', 1, i), 1024))
    zero = [0] * 128
    for r in range(t):
        for s in range(4):
            for l in range(p):
                indep = (y == 1) or (y == 2 and r == 0 and s < 2)
                addr = None; ctr = 0
                for idx in range(SL):
                    j = s * SL + idx
                    if r == 0 and j < 2: continue
                    if indep:
                        if addr is None or idx % 128 == 0:
                            ctr = idx // 128 + 1
                            Z = [r, l, s, mp, t, y, ctr] + [0] * 121
                            addr = a2_G(zero, a2_G(zero, Z))
                        J = addr[idx % 128]
                    else:
                        J = Bk[l][(j - 1) % q][0]
                    J1 = J & M32; J2 = J >> 32
                    rl = l if (r == 0 and s == 0) else J2 % p
                    same = (rl == l)
                    if r == 0:
                        if s == 0: W = idx - 1
                        elif same: W = s * SL + idx - 1
                        else: W = s * SL - (1 if idx == 0 else 0)
                        start = 0
                    else:
                        if same: W = q - SL + idx - 1
                        else: W = q - SL - (1 if idx == 0 else 0)
                        start = ((s + 1) * SL) % q
                    x = (J1 * J1) >> 32; yv = (W * x) >> 32; zz = W - 1 - yv
                    ref = (start + zz) % q
                    new = a2_G(Bk[l][(j - 1) % q], Bk[rl][ref])
                    if r > 0 and version == 0x13:
                        new = [a ^ b for a, b in zip(new, Bk[l][j])]
                    Bk[l][j] = new
    C = Bk[0][q - 1]
    for i in range(1, p): C = [a ^ b for a, b in zip(C, Bk[i][q - 1])]
    return a2_Hprime(struct.pack('<128Q', *C), T)

# ---------------- Keccak / SHA-3 (pure Python, parametric domain byte) ----------------
_KRC = [0x0000000000000001, 0x0000000000008082, 0x800000000000808A, 0x8000000080008000, 0x000000000000808B,
        0x0000000080000001, 0x8000000080008081, 0x8000000000008009, 0x000000000000008A, 0x0000000000000088,
        0x0000000080008009, 0x000000008000000A, 0x000000008000808B, 0x800000000000008B, 0x8000000000008089,
        0x8000000000008003, 0x8000000000008002, 0x8000000000000080, 0x000000000000800A, 0x800000008000000A,
        0x8000000080008081, 0x8000000000008080, 0x0000000080000001, 0x8000000080008008]
def _rol64(x, n):
    n %= 64
    return ((x << n) | (x >> (64 - n))) & M64 if n else x
# rotation offsets computed from the specification's recurrence rather than copied
def _keccak_rot():
    r = [[0] * 5 for _ in range(5)]
    x, y = 1, 0
    for t in range(24):
        r[x][y] = ((t + 1) * (t + 2) // 2) % 64
        x, y = y, (2 * x + 3 * y) % 5
    return r
_KROT = _keccak_rot()
def keccak_f(A):
    # A[x][y]
    for rnd in range(24):
        C = [A[x][0] ^ A[x][1] ^ A[x][2] ^ A[x][3] ^ A[x][4] for x in range(5)]
        Dd = [C[(x - 1) % 5] ^ _rol64(C[(x + 1) % 5], 1) for x in range(5)]
        A = [[A[x][y] ^ Dd[x] for y in range(5)] for x in range(5)]
        Bb = [[0] * 5 for _ in range(5)]
        for x in range(5):
            for y in range(5):
                Bb[y][(2 * x + 3 * y) % 5] = _rol64(A[x][y], _KROT[x][y])
        A = [[Bb[x][y] ^ ((~Bb[(x + 1) % 5][y]) & Bb[(x + 2) % 5][y]) for y in range(5)] for x in range(5)]
        A[0][0] ^= _KRC[rnd]
    return A
def keccak_sponge(rate, domain, outlen, msg):
    padded = bytearray(msg)
    padlen = rate - (len(msg) % rate)
    if padlen == 1:
        padded.append(domain | 0x80)
    else:
        padded.append(domain); padded += b'\0' * (padlen - 2); padded.append(0x80)
    A = [[0] * 5 for _ in range(5)]
    for off in range(0, len(padded), rate):
        blk = padded[off:off + rate]
        for i in range(rate // 8):
            A[i % 5][i // 5] ^= int.from_bytes(blk[8 * i:8 * i + 8], 'little')
        A = keccak_f(A)
    out = b''
    while True:
        for i in range(rate // 8):
            out += A[i % 5][i // 5].to_bytes(8, 'little')
            if len(out) >= outlen: return out[:outlen]
        A = keccak_f(A)
def keccak(bits, msg): return keccak_sponge(200 - bits // 4, 0x01, bits // 8, msg)
def sha3_pure(bits, msg): return keccak_sponge(200 - bits // 4, 0x06, bits // 8, msg)

# ---------------- BLAKE2 with explicit counter (RFC 7693) ----------------
_B2SIGMA = [[0, 1, 2, 3, 4, 5, 6, 7, 8, 9, 10, 11, 12, 13, 14, 15], [14, 10, 4, 8, 9, 15, 13, 6, 1, 12, 0, 2, 11, 7, 5, 3],
            [11, 8, 12, 0, 5, 2, 15, 13, 10, 14, 3, 6, 7, 1, 9, 4], [7, 9, 3, 1, 13, 12, 11, 14, 2, 6, 5, 10, 4, 0, 15, 8],
            [9, 0, 5, 7, 2, 4, 10, 15, 14, 1, 11, 12, 6, 8, 3, 13], [2, 12, 6, 10, 0, 11, 8, 3, 4, 13, 7, 5, 15, 14, 1, 9],
            [12, 5, 1, 15, 14, 13, 4, 10, 0, 7, 6, 3, 9, 2, 8, 11], [13, 11, 7, 14, 12, 1, 3, 9, 5, 0, 15, 4, 8, 6, 2, 10],
            [6, 15, 14, 9, 11, 3, 0, 8, 12, 2, 13, 7, 1, 4, 10, 5], [10, 2, 8, 4, 7, 6, 1, 5, 15, 11, 9, 14, 3, 12, 13, 0]]
_B2B_IV = [0x6a09e667f3bcc908, 0xbb67ae8584caa73b, 0x3c6ef372fe94f82b, 0xa54ff53a5f1d36f1,
           0x510e527fade682d1, 0x9b05688c2b3e6c1f, 0x1f83d9abfb41bd6b, 0x5be0cd19137e2179]
_B2S_IV = [0x6A09E667, 0xBB67AE85, 0x3C6EF372, 0xA54FF53A, 0x510E527F, 0x9B05688C, 0x1F83D9AB, 0x5BE0CD19]
def _b2_compress(h, blk, t, last, big):
    if big: W, MSK, R, NR, IV, fmt = 64, M64, (32, 24, 16, 63), 12, _B2B_IV, '<16Q'
    else: W, MSK, R, NR, IV, fmt = 32, M32, (16, 12, 8, 7), 10, _B2S_IV, '<16I'
    m = struct.unpack(fmt, blk)
    v = list(h) + list(IV)
    v[12] ^= t & MSK; v[13] ^= (t >> W) & MSK
    if last: v[14] ^= MSK
    def ror(x, n): return ((x >> n) | (x << (W - n))) & MSK
    def Gm(a, b, c, d, x, y):
        v[a] = (v[a] + v[b] + x) & MSK; v[d] = ror(v[d] ^ v[a], R[0])
        v[c] = (v[c] + v[d]) & MSK; v[b] = ror(v[b] ^ v[c], R[1])
        v[a] = (v[a] + v[b] + y) & MSK; v[d] = ror(v[d] ^ v[a], R[2])
        v[c] = (v[c] + v[d]) & MSK; v[b] = ror(v[b] ^ v[c], R[3])
    for i in range(NR):
        s = _B2SIGMA[i % 10]
        Gm(0, 4, 8, 12, m[s[0]], m[s[1]]); Gm(1, 5, 9, 13, m[s[2]], m[s[3]])
        Gm(2, 6, 10, 14, m[s[4]], m[s[5]]); Gm(3, 7, 11, 15, m[s[6]], m[s[7]])
        Gm(0, 5, 10, 15, m[s[8]], m[s[9]]); Gm(1, 6, 11, 12, m[s[10]], m[s[11]])
        Gm(2, 7, 8, 13, m[s[12]], m[s[13]]); Gm(3, 4, 9, 14, m[s[14]], m[s[15]])
    return [h[i] ^ v[i] ^ v[i + 8] for i in range(8)]
def blake2_pure(big, outlen, key, msg, t_start=0, t_preset_after_key=None):
    """RFC 7693 BLAKE2b (big) / BLAKE2s.  t_preset_after_key: if not None, the byte counter is
    forced to that value right after the (optional) key block has been *buffered* (i.e. before
    anything is compressed) - this mirrors a context whose counter was preset before any update."""
    bs = 128 if big else 64
    W = 64 if big else 32
    IV = _B2B_IV if big else _B2S_IV
    h = list(IV); h[0] ^= 0x01010000 ^ (len(key) << 8) ^ outlen
    data = (key + b'\0' * (bs - len(key)) if key else b'') + msg
    t = t_start if t_preset_after_key is None else t_preset_after_key
    TM = (1 << (2 * W)) - 1
    # all blocks but the last (the last block is never empty unless data is empty)
    nfull = (len(data) - 1) // bs if data else 0
    for i in range(nfull):
        t = (t + bs) & TM
        h = _b2_compress(h, data[i * bs:(i + 1) * bs], t, False, big)
    lastblk = data[nfull * bs:]
    t = (t + len(lastblk)) & TM
    h = _b2_compress(h, lastblk + b'\0' * (bs - len(lastblk)), t, True, big)
    return struct.pack('<8Q' if big else '<8I', *h)[:outlen]

# ---------------- hash dispatch ----------------
def _ripemd160(m):
    return hashlib.new('ripemd160', m).digest()
HASHES = {
    'sha1': lambda m: hashlib.sha1(m).digest(), 'sha224': lambda m: hashlib.sha224(m).digest(),
    'sha256': lambda m: hashlib.sha256(m).digest(), 'sha384': lambda m: hashlib.sha384(m).digest(),
    'sha512': lambda m: hashlib.sha512(m).digest(),
    'sha512_224': lambda m: hashlib.new('sha512_224', m).digest(), 'sha512_256': lambda m: hashlib.new('sha512_256', m).digest(),
    'sha3_224': lambda m: hashlib.sha3_224(m).digest(), 'sha3_256': lambda m: hashlib.sha3_256(m).digest(),
    'sha3_384': lambda m: hashlib.sha3_384(m).digest(), 'sha3_512': lambda m: hashlib.sha3_512(m).digest(),
    'keccak224': lambda m: keccak(224, m), 'keccak256': lambda m: keccak(256, m),
    'keccak384': lambda m: keccak(384, m), 'keccak512': lambda m: keccak(512, m),
    'ripemd160': _ripemd160,
    'blake2b_224': lambda m: hashlib.blake2b(m, digest_size=28).digest(), 'blake2b_256': lambda m: hashlib.blake2b(m, digest_size=32).digest(),
    'blake2b_384': lambda m: hashlib.blake2b(m, digest_size=48).digest(), 'blake2b_512': lambda m: hashlib.blake2b(m, digest_size=64).digest(),
    'blake2s_224': lambda m: hashlib.blake2s(m, digest_size=28).digest(), 'blake2s_256': lambda m: hashlib.blake2s(m, digest_size=32).digest(),
}
BLOCK = {'sha1': 64, 'sha224': 64, 'sha256': 64, 'sha384': 128, 'sha512': 128, 'sha512_224': 128, 'sha512_256': 128,
         'sha3_224': 144, 'sha3_256': 136, 'sha3_384': 104, 'sha3_512': 72,
         'keccak224': 144, 'keccak256': 136, 'keccak384': 104, 'keccak512': 72, 'ripemd160': 64,
         'blake2b_224': 128, 'blake2b_256': 128, 'blake2b_384': 128, 'blake2b_512': 128, 'blake2s_224': 64, 'blake2s_256': 64,
         'blake2b': 128, 'blake2s': 64}
OUTLEN = {'sha1': 20, 'sha224': 28, 'sha256': 32, 'sha384': 48, 'sha512': 64, 'sha512_224': 28, 'sha512_256': 32,
          'sha3_224': 28, 'sha3_256': 32, 'sha3_384': 48, 'sha3_512': 64, 'keccak224': 28, 'keccak256': 32,
          'keccak384': 48, 'keccak512': 64, 'ripemd160': 20}
def blake2b(outlen, key, m): return hashlib.blake2b(m, digest_size=outlen, key=key).digest()
def blake2s(outlen, key, m): return hashlib.blake2s(m, digest_size=outlen, key=key).digest()

def hash_variant(variant, msg):
    """variant: plain name, or b2b:<outlen>:<keyspec-bytes handled by caller>"""
    return HASHES[variant](msg)

# ---------------- HMAC / HKDF / PBKDF2 / scrypt ----------------
def hmac_generic(hfn, bs, key, msg):
    if len(key) > bs: key = hfn(key)
    key = key + b'\0' * (bs - len(key))
    return hfn(bytes(b ^ 0x5c for b in key) + hfn(bytes(b ^ 0x36 for b in key) + msg))
def digest_fn(name):
    """legacy Digest names -> (fn, block, outlen). blake2b:<n>, blake2s:<n> allowed."""
    if name.startswith('blake2b:'):
        n = int(name.split(':')[1]); return (lambda m: hashlib.blake2b(m, digest_size=n).digest()), 128, n
    if name.startswith('blake2s:'):
        n = int(name.split(':')[1]); return (lambda m: hashlib.blake2s(m, digest_size=n).digest()), 64, n
    return HASHES[name], BLOCK[name], OUTLEN[name]
def hmac(name, key, msg):
    f, bs, _ = digest_fn(name)
    return hmac_generic(f, bs, key, msg)
def hkdf_extract(name, salt, ikm): return hmac(name, salt, ikm)
def hkdf_expand(name, prk, info, L):
    t = b''; okm = b''; i = 0
    while len(okm) < L:
        i += 1
        assert i <= 255
        t = hmac(name, prk, t + info + bytes([i])); okm += t
    return okm[:L]
def pbkdf2(name, pw, salt, c, dklen):
    """RFC 8018 PBKDF2; PRF = HMAC over the named digest, or (name b2bmac:<n> / b2smac:<n>) keyed BLAKE2 with an n-byte output"""
    if name.startswith(('b2bmac:', 'b2smac:')):
        hl = int(name.split(':')[1])
        prf = (lambda k, m: hashlib.blake2b(m, digest_size=hl, key=k).digest()) if name[2] == 'b' else (lambda k, m: hashlib.blake2s(m, digest_size=hl, key=k).digest())
    else:
        _, _, hl = digest_fn(name)
        prf = lambda k, m: hmac(name, k, m)
    out = b''; i = 0
    while len(out) < dklen:
        i += 1
        u = prf(pw, salt + struct.pack('>I', i)); acc = int.from_bytes(u, 'big')
        for _ in range(c - 1):
            u = prf(pw, u); acc ^= int.from_bytes(u, 'big')
        out += acc.to_bytes(hl, 'big')
    return out[:dklen]
def _salsa20_8(b):
    x = list(struct.unpack('<16I', b))
    w = salsa_perm(x, 8)
    return struct.pack('<16I', *[(a + c) & M32 for a, c in zip(w, x)])
def _blockmix(B, r):
    X = B[-64:]; Y = []
    for i in range(2 * r):
        X = _salsa20_8(bytes(a ^ b for a, b in zip(X, B[64 * i:64 * i + 64]))); Y.append(X)
    return b''.join(Y[0::2]) + b''.join(Y[1::2])
def scrypt_pure(pw, salt, N, r, p, dklen):
    B = hashlib.pbkdf2_hmac('sha256', pw, salt, 1, p * 128 * r)
    out = b''
    for i in range(p):
        X = B[i * 128 * r:(i + 1) * 128 * r]; V = []
        for _ in range(N):
            V.append(X); X = _blockmix(X, r)
        for _ in range(N):
            j = int.from_bytes(X[-64:-56], 'little') % N
            X = _blockmix(bytes(a ^ b for a, b in zip(X, V[j])), r)
        out += X
    return hashlib.pbkdf2_hmac('sha256', pw, out, 1, dklen)
def scrypt(pw, salt, logn, r, p, dklen):
    N = 1 << logn
    if N < 2 or N * r * 128 > 2**30:
        return scrypt_pure(pw, salt, N, r, p, dklen)
    return hashlib.scrypt(pw, salt=salt, n=N, r=r, p=p, dklen=dklen, maxmem=2**31 - 1)

# ---------------- stream cipher keystream by variant ----------------
def stream_blockfn(variant, rounds, key, nonce):
    """returns f(n) -> 64-byte block for absolute block index n with the counter semantics of the variant"""
    if variant == 'chacha': return lambda n: chacha_ietf_block(key, nonce, n & M32, rounds)
    if variant == 'chachao': return lambda n: chacha_orig_block(key, nonce, n & M64, rounds)
    if variant == 'xchacha':
        sub = hchacha(key, nonce[:16], rounds)
        # the crate initialises the inner state with an 8-byte nonce: words 12,13 = counter(32-bit increment), 0
        return lambda n: chacha_block(sub, struct.pack('<II', n & M32, 0) + nonce[16:], rounds)
    if variant == 'salsa': return lambda n: salsa_block(key, nonce, n & M64, rounds)
    if variant == 'xsalsa':
        sub = hsalsa(key, nonce[:16], rounds)
        return lambda n: salsa_block(sub, nonce[16:], n & M64, rounds)
    raise KeyError(variant)
def stream_counter_bits(variant): return 32 if variant in ('chacha', 'xchacha') else 64
class Keystream:
    def __init__(self, variant, rounds, key, nonce):
        self.f = stream_blockfn(variant, rounds, key, nonce); self.bits = stream_counter_bits(variant)
        self.cache = {}
    def block(self, n):
        n &= (1 << self.bits) - 1
        b = self.cache.get(n)
        if b is None:
            b = self.cache[n] = self.f(n)
        return b
    def take(self, pos, ln):
        """keystream bytes [pos, pos+ln) where pos = 64*block + offset (block wraps per variant)"""
        out = bytearray()
        while ln > 0:
            n, off = divmod(pos, 64)
            chunk = self.block(n)[off:off + ln]
            out += chunk; pos += len(chunk); ln -= len(chunk)
        return bytes(out)
def xor(a, b): return bytes(x ^ y for x, y in zip(a, b))
