"""Sequential model of the stream-cipher contexts and the DRG: (key, nonce, absolute byte position)."""
from .codec import expand, spec_len
from . import oracle as o

MAP = {'pchacha': 'chacha', 'pchachao': 'chachao', 'pxchacha': 'xchacha'}


def sc_model(line):
    """returns (expected tokens, coverage keys)"""
    f = line.split()
    variant, rounds, key, nonce = f[1], int(f[2]), expand(f[3]), expand(f[4])
    ov = MAP.get(variant, variant)
    ks = o.Keystream(ov, rounds, key, nonce)
    objs = {0: 0}
    out, cov = [], []
    for s in f[5:]:
        p = s.split('.')
        ob = int(p[1])
        if p[0] == 'pms':
            d = expand(p[2])
            pos = objs[ob]
            out.append((o.xor(d, ks.take(pos, len(d))).hex()) or '-')
            off = int(p[3])
            a = off
            for c in ([int(x) for x in p[4].split(',')] if p[4] != '-' else []):
                if 0 < c < 7 and a % 8 and c < 8 - a % 8:
                    cov.append('pms:short-piece-at-unaligned-address')
                a += c
            cov.append('pms:base%%8=%d' % (off % 8))
            objs[ob] = pos + len(d)
        elif p[0] in ('p', 'pm'):
            d = expand(p[2])
            pos = objs[ob]
            out.append((o.xor(d, ks.take(pos, len(d))).hex()) or '-')
            off = pos % 64
            rem = 64 - off if off else 0   # keystream bytes still cached (0 when at a block boundary / fresh)
            ln = len(d)
            rel = 'empty' if ln == 0 else ('<' if ln < rem else ('=' if ln == rem else ('>' if ln <= rem + 64 else '>+64')))
            offc = '0' if off == 0 else ('63' if off == 63 else 'mid')
            cov.append('%s:off=%s:len%srem' % (p[0], offc, rel))
            objs[ob] = pos + ln
        elif p[0] in ('s', 'S'):
            n = int(p[2], 0)
            cov.append('seek:off=%s' % ('0' if objs[ob] % 64 == 0 else 'mid'))
            objs[ob] = 64 * n
        elif p[0] == 'c':
            objs[int(p[2])] = objs[ob]
            cov.append('clone:off=%s' % ('0' if objs[ob] % 64 == 0 else 'mid'))
        elif p[0] == 'cf':
            src = int(p[2])
            cov.append('clone_from:dst-off=%s:src-off=%s' % ('0' if objs[ob] % 64 == 0 else 'mid', '0' if objs[src] % 64 == 0 else 'mid'))
            objs[ob] = objs[src]
    return out, cov


def drg_model(line):
    f = line.split()
    rounds, seed = int(f[1]), expand(f[2])
    ks = o.Keystream('chacha', rounds, seed, bytes(12))
    pos = 0
    out, cov = [], []
    for s in f[3:]:
        p = s.split('.')
        if p[0] == 'b':
            n = int(p[1])
        elif p[0] in ('fb', 'fs'):
            n = spec_len(p[1])
        elif p[0] == 'u32':
            n = 4
        else:
            n = 8
        out.append(ks.take(pos, n).hex() or '-')
        off = pos % 64
        prior = 'na' if p[0] in ('b', 'u32', 'u64') else ('zero' if expand(p[1]) == bytes(n) else 'nonzero')
        cov.append('drg:%s:prior=%s:%s' % (p[0], prior, 'cross' if off + n > 64 else 'within'))
        pos += n
    return out, cov
