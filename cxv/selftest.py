"""Known-answer tests pinning every reference model to published vectors.  A failure makes the
calling check INCONCLUSIVE (the oracle cannot be trusted), never a violation."""
import hashlib, struct, subprocess, shutil, os
from . import oracle as o
from .runner import Inconclusive

H = bytes.fromhex


def t_hashes():
    assert o.keccak(256, b'').hex() == 'c5d2460186f7233c927e7db2dcc703c0e500b653ca82273b7bfad8045d85a470'
    assert o.keccak(512, b'').hex().startswith('0eab42de4c3ceb9235fc91acffe746b29c29a8c366b7c60e4e67c466f36a4304')
    assert o.keccak(224, b'abc').hex() == 'c30411768506ebe1c2871b1ee2e87d38df342317300a9b97a95ec6a8'
    for bits in (224, 256, 384, 512):
        rate = 200 - bits // 4
        for n in (0, 1, rate - 1, rate, rate + 1, 2 * rate - 1, 2 * rate, 300):
            m = bytes((i * 7 + n) & 0xff for i in range(n))
            assert o.sha3_pure(bits, m) == getattr(hashlib, 'sha3_%d' % bits)(m).digest(), (bits, n)
    assert o.HASHES['ripemd160'](b'abc').hex() == '8eb208f7e05d987a9b044a8e98c6b087f15a0bfc'
    assert o.HASHES['sha512_256'](b'abc').hex().startswith('53048e2681941ef99b2e29b76b4c7dab')
    assert o.HASHES['sha512_224'](b'abc').hex().startswith('4634270f707b6a54daae7530460842e2')
    # pure BLAKE2 == hashlib on a grid
    for big in (True, False):
        bs = 128 if big else 64
        for ol in (1, 20, 32 if not big else 64):
            for kl in (0, 7, 32):
                for n in (0, 1, bs - 1, bs, bs + 1, 2 * bs, 2 * bs + 1, 3 * bs + 5):
                    m = bytes((i * 13 + n) & 0xff for i in range(n)); k = bytes(range(kl))
                    ref = (hashlib.blake2b if big else hashlib.blake2s)(m, digest_size=ol, key=k).digest()
                    assert o.blake2_pure(big, ol, k, m) == ref, (big, ol, kl, n)


def t_stream():
    # RFC 8439 2.3.2
    key = bytes(range(32)); nonce = H('000000090000004a00000000')
    assert o.chacha_ietf_block(key, nonce, 1).hex().startswith('10f1e7e4d13b5915500fdd1fa32071c4')
    # RFC 8439 2.4.2
    nonce = H('000000000000004a00000000')
    pt = b"Ladies and Gentlemen of the class of '99: If I could offer you only one tip for the future, sunscreen would be it."
    ct = o.xor_stream(lambda n: o.chacha_ietf_block(key, nonce, n), 1, pt)
    assert ct.hex().startswith('6e2e359a2568f98041ba0728dd0d6981')
    # draft-irtf-cfrg-xchacha HChaCha20
    k = bytes(range(32)); n16 = H('000000090000004a0000000031415927')
    assert o.hchacha(k, n16).hex() == '82413b4227b27bfed30e42508a877d73a0f9e4d58a74a853c12ec41326d3ecdc'
    # ECRYPT salsa20 set 1 vector 0 (128 and 256 bit)
    assert o.salsa_block(H('80' + '00' * 15), bytes(8), 0).hex().startswith('4dfa5e481da23ea09a31022050859936')
    assert o.salsa_block(H('80' + '00' * 31), bytes(8), 0).hex().startswith('e3be8fdd8beca2e3ea8ef9475b29a6e7')
    # XSalsa20 (cryptopp / libsodium stream3)
    k = H('1b27556473e985d462cd51197a9a46c76009549eac6474f206c4ee0844f68389')
    n = H('69696ee955b62b73cd62bda875fc73d68219e0036b7a0b37')
    assert o.xsalsa_block(k, n, 0).hex().startswith('eea6a7251c1e72916d11c2cb214d3c25')
    # original ChaCha20 (draft-agl-tls-chacha20poly1305-04), all zero
    assert o.chacha_orig_block(bytes(32), bytes(8), 0).hex().startswith('76b8e0ada0f13d90405d6ae55386bd28')


def t_poly_aead():
    key = H('85d6be7857556d337f4452fe42d506a80103808afb0db2fd4abff6af4149f51b')
    assert o.poly1305(key, b'Cryptographic Forum Research Group').hex() == 'a8061dc1305136c6c22b8baf0c0127a9'
    # RFC 8439 A.3 #5..#11 style wrap cases
    assert o.poly1305(H('02' + '00' * 31), H('ff' * 16)).hex() == '03' + '00' * 15
    assert o.poly1305(H('02' + '00' * 15 + 'ff' * 16), H('02' + '00' * 15)).hex() == '03' + '00' * 15
    assert o.poly1305(H('01' + '00' * 31), H('ff' * 16 + 'f0' + 'ff' * 15 + '11' + '00' * 15)).hex() == '05' + '00' * 15
    assert o.poly1305(H('01' + '00' * 31), H('ff' * 16 + 'fb' + 'fe' * 15 + '01' * 16)).hex() == '00' * 16
    assert o.poly1305(H('02' + '00' * 31), H('fd' + 'ff' * 15)).hex() == 'fa' + 'ff' * 15
    # RFC 8439 2.8.2
    key = bytes(range(0x80, 0xa0)); nonce = H('070000004041424344454647'); aad = H('50515253c0c1c2c3c4c5c6c7')
    pt = b"Ladies and Gentlemen of the class of '99: If I could offer you only one tip for the future, sunscreen would be it."
    ct, tag = o.aead_encrypt(key, nonce, aad, pt)
    assert tag.hex() == '1ae10b594f09e26a7e902ecbd0600691' and ct.hex().startswith('d31a8d34648e60db7b86afbc53ef7ec2')


def t_kdf():
    # RFC 4231 #1, RFC 2202 #1
    assert o.hmac('sha256', b'\x0b' * 20, b'Hi There').hex() == 'b0344c61d8db38535ca8afceaf0bf12b881dc200c9833da726e9376c2e32cff7'
    assert o.hmac('sha1', b'\x0b' * 20, b'Hi There').hex() == 'b617318655057264e28bc0b6fb378c8ef146be00'
    import hmac as pyhmac
    for name, hl in (('sha3_256', hashlib.sha3_256), ('sha512', hashlib.sha512), ('ripemd160', lambda d=b'': hashlib.new('ripemd160', d))):
        for kl in (0, 1, 63, 64, 65, 135, 136, 137, 300):
            k = bytes(range(256))[:kl] * 1 if kl <= 256 else (bytes(range(256)) * 2)[:kl]
            assert o.hmac(name, k, b'msg') == pyhmac.new(k, b'msg', hl).digest(), (name, kl)
    # RFC 5869 A.1
    prk = o.hkdf_extract('sha256', H('000102030405060708090a0b0c'), b'\x0b' * 22)
    assert prk.hex() == '077709362c2e32df0ddc3f0dc47bba6390b6c73bb50f9c3122ec844ad7c2b3e5'
    assert o.hkdf_expand('sha256', prk, H('f0f1f2f3f4f5f6f7f8f9'), 42).hex() == '3cb25f25faacd57a90434f64d0362f2a2d2d0a90cf1a5a4c5db02d56ecc4c5bf34007208d5b887185865'
    # RFC 6070
    assert o.pbkdf2('sha1', b'password', b'salt', 2, 20).hex() == 'ea6c014dc72d6f8ccd1ed92ace1d41f0d8de8957'
    assert o.pbkdf2('sha1', b'password', b'salt', 4096, 20).hex() == '4b007901b765489abead49d926f721d065a429c1'
    for c, dk in ((1, 20), (3, 45), (2, 100)):
        assert o.pbkdf2('sha256', b'pw', b'na', c, dk) == hashlib.pbkdf2_hmac('sha256', b'pw', b'na', c, dk)
        assert o.pbkdf2('sha512', b'pw', b'na', c, dk) == hashlib.pbkdf2_hmac('sha512', b'pw', b'na', c, dk)
    # RFC 7914
    assert o.scrypt(b'', b'', 4, 1, 1, 64).hex().startswith('77d6576238657b203b19ca42c18a0497')
    assert o.scrypt_pure(b'password', b'NaCl', 16, 3, 2, 40) == hashlib.scrypt(b'password', salt=b'NaCl', n=16, r=3, p=2, dklen=40)
    assert o.scrypt_pure(b'pw', b's', 2, 1, 1, 16) is not None


def t_argon2():
    pwd, salt, key, aad = b'\x01' * 32, b'\x02' * 16, b'\x03' * 8, b'\x04' * 12
    assert o.argon2(0, 0x13, 3, 32, 4, 32, pwd, salt, key, aad).hex() == '512b391b6f1162975371d30919734294f868e3be3984f3c1a13a4db9fabe4acb'
    assert o.argon2(1, 0x13, 3, 32, 4, 32, pwd, salt, key, aad).hex() == 'c814d9d1dc7f37aa13f0d77f2494bda1c8de6b016dd388d29952a4c4672b6ce8'
    assert o.argon2(2, 0x13, 3, 32, 4, 32, pwd, salt, key, aad).hex() == '0d640df58d78766c08c037a34a8b53c9d01ef0452d75b65eb52520e96b01e659'


def t_curve():
    k = H('a546e36bf0527c9d3b16154b82465edd62144c0ac1fc5a18506a2244ba449ac4')
    u = H('e6db6867583030db3594c1a424b15f7c726624ec26b3353b10a903a6d0ab1c4c')
    assert o.x25519(k, u).hex() == 'c3da55379de9c6908e94ea4df28d084f32eccf03491c71f754b4075577a28552'
    k = H('4b66e9d4d1b4673c5ad22691957d6af5c11b6421e0ea01d42ca4169e7918ba0d')
    u = H('e5210f12786811d3f4b7959d0538ae2c31dbe7106fc03c3efc4cd549c715a493')
    assert o.x25519(k, u).hex() == '95cbde9476e8907d7aade45cb4b873f88b595a68799fa152e6f8f7647aac7957'
    nine = bytes([9]) + bytes(31)
    assert o.x25519(nine, nine).hex() == '422c8e7a6227d7bca1350b3e2bb7279f7897b87bb6854b783c60e80311ae3079'
    # RFC 8032 7.1 test 1,2,3
    for seed, pk, msg, sig in (
        ('9d61b19deffd5a60ba844af492ec2cc44449c5697b326919703bac031cae7f60', 'd75a980182b10ab7d54bfed3c964073a0ee172f3daa62325af021a68f707511a', '',
         'e5564300c360ac729086e2cc806e828a84877f1eb8e5d974d873e065224901555fb8821590a33bacc61e39701cf9b46bd25bf5f0595bbe24655141438e7a100b'),
        ('4ccd089b28ff96da9db6c346ec114e0f5b8a319f35aba624da8cf6ed4fb8a6fb', '3d4017c3e843895a92b70aa74d1b7ebc9c982ccf2ec4968cc0cd55f12af4660c', '72',
         '92a009a9f0d4cab8720e820b5f642540a2b27b5416503f8fb3762223ebdb69da085ac1e43e15996e458f3613d0f11d8c387b2eaeb4302aeeb00d291612bb0c00'),
        ('c5aa8df43f9f837bedb7442f31dcb7b166d38535076f094b85ce3a2e0b4458f7', 'fc51cd8e6218a1a38da47ed00230f0580816ed13ba3303ac5deb911548908025', 'af82',
         '6291d657deec24024827e69c3abe01a30ce548a284743a445e3680d7db5ac3ac18ff9b538d16f290ae67f760984dc6594a7c15e9716ed28dc027beceea1ec40a'),
    ):
        A, s = o.ed_sign(H(seed), H(msg))
        assert A.hex() == pk and s.hex() == sig
        assert o.ed_verify_pred(A, s, H(msg))
        bad = bytearray(s); bad[5] ^= 1
        assert not o.ed_verify_pred(A, bytes(bad), H(msg))
    # affine and extended addition agree
    P2 = o.ed_add(o.B, o.B)
    assert o.ext_aff(o.ext_mul(2, o.ext(o.B))) == P2
    assert o.ext_aff(o.ext_mul(o.L, o.ext(o.B))) == (0, 1)


def t_openssl():
    """optional cross-checks against the openssl binary; silently skipped when unavailable"""
    if not shutil.which('openssl'):
        return 'openssl not found'
    notes = []
    try:
        key = bytes(range(32)); iv = bytes(4) + bytes(range(12))  # openssl: 32-bit LE counter || 96-bit nonce
        pt = bytes(range(200))
        p = subprocess.run(['openssl', 'enc', '-chacha20', '-K', key.hex(), '-iv', iv.hex()], input=pt, capture_output=True, timeout=20)
        if p.returncode == 0:
            exp = o.xor_stream(lambda n: o.chacha_ietf_block(key, iv[4:], n), 0, pt)
            assert p.stdout == exp, 'openssl chacha20 mismatch'
            notes.append('chacha20 ok')
        p = subprocess.run(['openssl', 'mac', '-macopt', 'hexkey:' + key.hex(), '-binary', 'poly1305'], input=pt, capture_output=True, timeout=20)
        if p.returncode == 0 and len(p.stdout) == 16:
            assert p.stdout == o.poly1305(key, pt), 'openssl poly1305 mismatch'
            notes.append('poly1305 ok')
    except (OSError, subprocess.TimeoutExpired):
        return 'openssl failed to run'
    return ', '.join(notes)


GROUPS = {
    'hashes': t_hashes, 'stream': t_stream, 'poly_aead': t_poly_aead, 'kdf': t_kdf, 'argon2': t_argon2, 'curve': t_curve,
}
NEEDS = {
    'C01': ['hashes'], 'C02': ['hashes'], 'C03': ['stream'], 'C04': ['stream'], 'C05': ['poly_aead'], 'C06': ['stream', 'poly_aead'],
    'C07': ['stream', 'poly_aead'], 'C08': ['hashes', 'kdf'], 'C09': ['hashes', 'kdf', 'poly_aead'], 'C10': ['kdf'], 'C11': ['argon2'],
    'C12': ['curve'], 'C13': ['curve'], 'C14': ['curve'], 'C15': ['curve'], 'C16': ['hashes', 'stream', 'kdf'], 'C17': ['curve'],
    'C18': [], 'C19': [], 'C20': ['hashes', 'stream', 'poly_aead', 'kdf', 'curve'],
}


def run_cached(pid):
    for g in NEEDS.get(pid, GROUPS.keys()):
        try:
            GROUPS[g]()
        except AssertionError as e:
            raise Inconclusive('oracle self-test %s failed: %r' % (g, e))


def run_all():
    for g, f in GROUPS.items():
        f()
        print('selftest', g, 'ok')
    print('selftest openssl:', t_openssl())


if __name__ == '__main__':
    run_all()
