"""Sequential model of MAC and legacy digest objects: (key, bytes since reset, finalized, last result)."""
from .codec import expand
from . import oracle as o


def mac_fn(ty):
    if ty == 'poly1305':
        return lambda k, m: o.poly1305(k, m)
    if ty.startswith('hmac:'):
        d = ty[5:]
        return lambda k, m: o.hmac(d, k, m)
    if ty.startswith('b2bmac:'):
        n = int(ty[7:]); return lambda k, m: o.blake2b(n, k, m)
    if ty.startswith('b2smac:'):
        n = int(ty[7:]); return lambda k, m: o.blake2s(n, k, m)
    raise KeyError(ty)


def mac_outlen(ty):
    if ty == 'poly1305':
        return 16
    if ty.startswith('hmac:'):
        return o.digest_fn(ty[5:])[2]
    return int(ty.split(':')[1])


def check_history(line, toks):
    """Generic checker for `mac` and `dig` histories.
    Returns (violations [(kind, msg)], coverage keys).  kinds: wrong-value, silent-second-result, input-after-result-accepted,
    reset-mismatch, unexpected-panic, output-size"""
    f = line.split()
    if f[0] == 'mac':
        ty = f[1]; key = expand(f[2]); steps = f[3:]
        fn = mac_fn(ty); outlen = mac_outlen(ty)
        name = ty.split(':')[0] if not ty.startswith('hmac') else 'hmac'
    else:
        ty = f[1]; key = b''; steps = f[2:]
        hf, bs, outlen = o.digest_fn(ty)
        if ty.startswith('blake2b:'):
            fn = lambda k, m, n=outlen: o.blake2b(n, k, m)       # the legacy BLAKE2 objects can be re-keyed in place
        elif ty.startswith('blake2s:'):
            fn = lambda k, m, n=outlen: o.blake2s(n, k, m)
        else:
            fn = lambda k, m: hf(m)
        name = 'digest'
    objs = {0: {'b': b'', 'fin': False, 'last': None, 'after_reset': False, 'key': key, 'unsure': False}}
    viol, cov = [], []
    ti = 0

    def tok():
        nonlocal ti
        t = toks[ti] if ti < len(toks) else None
        ti += 1
        return t
    for s in steps:
        p = s.split('.')
        ob = int(p[1])
        st = objs[ob]
        if p[0] == 'i':
            d = expand(p[2])
            if st['unsure'] and not st['fin']:
                # after a refused result the object may be finalised (input panics) or open (input accepted)
                t = toks[ti] if ti < len(toks) else None
                if t == 'PANIC':
                    return viol, cov
                st['unsure'] = False
            if st['fin']:
                # must fail loudly: the next token must be PANIC and the history ends there
                t = toks[ti] if ti < len(toks) else None
                cov.append('input-after-result')
                if t != 'PANIC':
                    viol.append(('input-after-result-accepted', 'input() after result() without reset was accepted silently (step %s)' % s))
                return viol, cov
            st['b'] += d
            cov.append('input:%s' % ('empty' if not d else ('aligned' if len(st['b']) % 16 == 0 else 'unaligned')))
        elif p[0] in ('r', 'rr', 'rrc', 'rc'):
            t = tok()
            want = fn(st['key'], st['b'])
            if p[0] in ('rr', 'rrc', 'rc') or (f[0] == 'dig' and len(p) > 2):
                n = int(p[2])
                if ty == 'poly1305':
                    ok_shape = n >= 16          # documented: "at least 16 bytes"; only the first 16 are the tag
                    want_buf = want if ok_shape else None
                    if ok_shape and t not in (None, 'PANIC'):
                        t = t[:32]
                else:
                    ok_shape = n == outlen
                    want_buf = want
                if not ok_shape:
                    cov.append('result:bad-buffer')
                    if t != 'PANIC':
                        viol.append(('bad-buffer-accepted', 'result into a %d-byte buffer returned %s instead of failing' % (n, t)))
                        return viol, cov
                    if p[0] in ('rrc', 'rc'):
                        # the refusal was caught and the object is used again: it may consider itself finalised or still open, but it
                        # must never return anything else than the MAC / digest of the bytes fed since the last reset
                        cov.append('result:bad-buffer:object-reused')
                        st['unsure'] = True
                        continue
                    return viol, cov
                want = want_buf
            if st['unsure'] and not st['fin']:
                if t == 'PANIC':
                    return viol, cov
                if t != (want.hex() or '-'):
                    viol.append(('wrong-value-after-refused-result', 'step %s after a refused result(): expected %s (or a panic) got %s (message length %d)' % (s, want.hex(), t, len(st['b']))))
                    return viol, cov
                st['fin'] = True; st['last'] = t
                continue
            if not st['fin']:
                cov.append('result:first:%s%s' % ('len%16==0' if len(st['b']) % 16 == 0 else 'len%16!=0', ':after-reset' if st['after_reset'] else ''))
                if t == 'PANIC':
                    viol.append(('unexpected-panic', 'first result() panicked (step %s)' % s))
                    return viol, cov
                if t != (want.hex() or '-'):
                    kind = 'reset-mismatch' if st['after_reset'] else 'wrong-value'
                    viol.append((kind, 'step %s: expected %s got %s (message length %d)' % (s, want.hex(), t, len(st['b']))))
                st['fin'] = True
                st['last'] = t
            else:
                cov.append('result:repeated:%s' % ('len%16==0' if len(st['b']) % 16 == 0 else 'len%16!=0'))
                if t == 'PANIC':
                    return viol, cov
                if t != st['last']:
                    viol.append(('silent-second-result', 'second result() returned %s, first returned %s (message length %d)' % (t, st['last'], len(st['b']))))
        elif p[0] == 'x':
            st['b'] = b''; st['fin'] = False; st['last'] = None; st['after_reset'] = True; st['unsure'] = False
            cov.append('reset')
        elif p[0] == 'xi':
            # the type's own reset(): a plain (unkeyed) object from now on, also for later trait resets
            st['b'] = b''; st['fin'] = False; st['last'] = None; st['after_reset'] = True; st['unsure'] = False; st['key'] = b''
            cov.append('reset:inherent')
        elif p[0] == 'xk':
            st['b'] = b''; st['fin'] = False; st['last'] = None; st['after_reset'] = True; st['unsure'] = False; st['key'] = expand(p[2])
            cov.append('reset:inherent-with-key:%s' % ('empty' if not st['key'] else 'nonempty'))
        elif p[0] == 'c':
            objs[int(p[2])] = dict(st)
            cov.append('clone:%s' % ('fin' if st['fin'] else 'open'))
        elif p[0] == 'cf':
            objs[ob] = dict(objs[int(p[2])])
            cov.append('clone_from:%s' % ('fin' if objs[ob]['fin'] else 'open'))
        elif p[0] == 'ob':
            t = tok()
            if t != str(outlen):
                viol.append(('output-size', 'output_bytes() = %s, digest size is %d' % (t, outlen)))
        elif p[0] == 'obits':
            t = tok()
            if t != str(outlen * 8):
                viol.append(('output-size', 'output_bits() = %s, digest size is %d bytes' % (t, outlen)))
        elif p[0] == 'bs':
            t = tok()
            if t != str(o.digest_fn(ty)[1]):
                viol.append(('block-size', 'block_size() = %s, expected %d' % (t, o.digest_fn(ty)[1])))
    if ti < len(toks):
        viol.append(('unexpected-panic' if 'PANIC' in toks[ti:] else 'extra-output', 'unexpected trailing tokens %r' % toks[ti:ti + 3]))
    return viol, cov
