#!/bin/bash
# import_mutant.sh <worktree> <n> <new-id> <round> "<checks>" : validate a sub-agent's change in its scratch worktree
# (flags via VM_FLAGS / VM_FEAT / VM_PROF) and, if confirmed, store it as /verif/seeded/<new-id>/
WT=$1; N=$2; ID=$3; ROUND=$4; CHECKS=$5
res=$(/verif/tools/validate_mutant.sh $WT $N 2>&1 | grep RESULT)
echo "$res"
echo "$res" | grep -q "confirmed=yes" || { echo "NOT CONFIRMED: $ID"; exit 1; }
D=/verif/seeded/$ID; mkdir -p $D
cp $WT/MUTANT/$N/patch.diff $D/
for f in demo_test.rs demo.sh; do [ -f $WT/MUTANT/$N/$f ] && cp $WT/MUTANT/$N/$f $D/; done
# any helper files the demo needs (small ones only)
for f in $WT/MUTANT/$N/*; do b=$(basename $f); case $b in patch.diff|demo_test.rs|demo.sh|meta.json|target) ;; *) [ -f $f ] && [ $(stat -c %s $f) -lt 200000 ] && cp $f $D/; [ -d $f ] && [ $(du -sk $f | cut -f1) -lt 1000 ] && cp -r $f $D/;; esac; done
python3 - "$WT/MUTANT/$N/meta.json" "$D/meta.json" "$ID" "$ROUND" "$CHECKS" "$res" <<'P'
import json,sys
src,dst,id_,rnd,checks,res=sys.argv[1:7]
m=json.load(open(src))
out={'id':id_,'property':id_.split('-')[0],'round':int(rnd),
 'origin':'independent sub-agent (round %s: given the property text, a scratch worktree and one-line summaries of the earlier changes to avoid; nothing from /verif)'%rnd,
 'summary':m.get('summary',''),'needs_to_manifest':m.get('needs_to_manifest',''),'how_to_run_demo':m.get('how_to_run_demo',''),
 'agent_verified':m.get('agent_verified',''),'confirmed_by_me':'tools/validate_mutant.sh in the scratch worktree: '+res.split('RESULT',1)[1].strip(),
 'checks_to_run':checks.split()}
json.dump(out,open(dst,'w'),indent=1)
P
echo "stored $D"
