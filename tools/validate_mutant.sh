#!/bin/bash
# validate_mutant.sh <worktree> <n> : confirms that mutant n (a) applies, (b) builds with and without verif-hooks,
# (c) keeps the 63 baseline tests green, (d) its demo passes on the clean tree and fails with the patch.
WT=$1; N=$2; M=$WT/MUTANT/$N; ID=$(basename $WT)
cd $WT || exit 9
git checkout -q -- . ; rm -rf tests examples
export CARGO_NET_OFFLINE=true
FLAGS=""; FEAT=""
PROF=""
case "$ID/$N" in
  C02/2) FLAGS="-C target-feature=+avx2";;
  C16/2) FLAGS="-C target-feature=+avx";;
  C17/1|C17/2|C17/4) FEAT="--features force-32bits";;
  C20/1) FEAT="--features verif-hooks";;
  C01/3) FLAGS="-C target-feature=+avx2";;
  C01/4) PROF="--release";;
  C03/3) FLAGS="-C target-feature=+ssse3";;
  C06/4) FLAGS="-C target-feature=-sse2";;
  C07/4) PROF="--release";;
  C09/3) PROF="--release";;
  C16/3) FLAGS="-C target-feature=+avx"; PROF="--release";;
  C16/4) FEAT="--features verif-hooks";;
  C20/3) PROF="--release";;
  C20/4) FLAGS="-C target-feature=+avx";;
  C12/4|C13/3|C13/4) FEAT="--features force-32bits";;
esac
# round 3 and later: flags come from the environment (VM_FLAGS / VM_FEAT / VM_PROF), the table above is for rounds 1-2
[ -n "${VM_FLAGS+x}" ] && FLAGS="$VM_FLAGS"
[ -n "${VM_FEAT+x}" ] && FEAT="$VM_FEAT"
[ -n "${VM_PROF+x}" ] && PROF="$VM_PROF"
demo() {
  if [ -f $M/demo.sh ]; then bash $M/demo.sh >/dev/null 2>&1; return $?; fi
  mkdir -p tests; cp $M/demo_test.rs tests/demo_test.rs
  RUSTFLAGS="$FLAGS" cargo test --offline $PROF $FEAT --test demo_test >/dev/null 2>&1; rc=$?
  rm -rf tests; return $rc
}
demo; clean_rc=$?
git apply $M/patch.diff || { echo "$ID/$N RESULT apply=FAIL"; exit 1; }
cargo build --offline >/dev/null 2>&1; b1=$?
cargo build --offline --features verif-hooks >/dev/null 2>&1; b2=$?
tests=$(cargo test --offline 2>&1 | grep "test result" | head -1 | sed 's/.*ok. \([0-9]*\) passed; \([0-9]*\) failed.*/\1p\2f/')
demo; mut_rc=$?
git checkout -q -- . ; rm -rf tests examples
ok=no; [ $clean_rc -eq 0 ] && [ $mut_rc -ne 0 ] && [ $b1 -eq 0 ] && [ $b2 -eq 0 ] && [ "$tests" = "63p0f" ] && ok=yes
echo "$ID/$N RESULT confirmed=$ok demo_clean_rc=$clean_rc demo_mutant_rc=$mut_rc build=$b1 build_hooks=$b2 tests=$tests flags='$FLAGS $FEAT $PROF'"
