#!/bin/bash
# mutant_matrix.sh [ids...] : for every seeded change under /verif/seeded, apply it to /repo, run the listed checks, revert.
# Output: one line per (mutant, check): DETECTED / missed / inconclusive.  Never leaves /repo modified.
# MATRIX_REPO / MATRIX_VERIF (default /repo, /verif) let the matrix run on scratch worktrees: an interrupted run then never leaves /repo patched
REPO=${MATRIX_REPO:-/repo}
cd ${MATRIX_VERIF:-/verif}
[ "$REPO" != /repo ] && export CXV_REPO=$REPO
sel="$@"
for d in seeded/*/; do
  id=$(basename $d)
  [ -n "$sel" ] && ! echo " $sel " | grep -q " $id " && continue
  checks=$(python3 -c "import json;print(' '.join(json.load(open('$d/meta.json'))['checks_to_run']))")
  if ! git -C $REPO diff --quiet; then echo "/repo dirty"; exit 9; fi
  base=$(python3 -c "import json;print(json.load(open('$d/meta.json')).get('base_patch',''))")
  if [ -n "$base" ]; then git -C $REPO apply $PWD/seeded/$base/patch.diff || { echo "$id BASE-PATCH-DOES-NOT-APPLY"; git -C $REPO checkout -- . ; git -C $REPO clean -fdq -- src; continue; }; fi
  if ! git -C $REPO apply $PWD/$d/patch.diff; then echo "$id PATCH-DOES-NOT-APPLY"; git -C $REPO checkout -- . ; git -C $REPO clean -fdq -- src; continue; fi
  for c in $checks; do
    out=$(bin/check $c --tier quick 2>&1); rc=$?
    if [ $rc -eq 1 ]; then res=DETECTED; elif [ $rc -eq 0 ]; then res=missed; else res=inconclusive; fi
    nsig=2; [ -n "$base" ] && nsig=40
    echo "$id $c $res :: $(echo "$out" | grep -A1 VIOLATION | grep signature | head -$nsig | cut -c1-150 | tr '\n' ' ')"
  done
  git -C $REPO checkout -- . ; git -C $REPO clean -fdq -- src
done
