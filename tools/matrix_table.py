#!/usr/bin/env python3
"""matrix_table.py <matrix log>... : renders the 'seeded change -> caught by' table of DESIGN.md section 9.4 from the raw
logs of tools/mutant_matrix.sh (later logs override earlier ones per (change, check))."""
import glob, json, os, re, sys
ROOT = os.path.dirname(os.path.dirname(os.path.abspath(__file__)))
res = {}
for path in sys.argv[1:]:
    for ln in open(path, errors='replace'):
        m = re.match(r'^(\S+) (C\d\d) (DETECTED|missed|inconclusive) ::\s*(.*)$', ln)
        if not m:
            continue
        cid, chk, verdict, rest = m.groups()
        sig = re.search(r'signature=(\S+)', rest)
        res.setdefault(cid, {})[chk] = (verdict, sig.group(1) if sig else '')


def key(d):
    m = re.match(r'C(\d+)-(\d+)', d)
    return (0, int(m.group(1)), int(m.group(2))) if m else (1, 0, int(re.sub(r'\D', '', d) or 0))


rows = []
for d in sorted((os.path.basename(x) for x in glob.glob(os.path.join(ROOT, 'seeded', '*')) if os.path.isdir(x)), key=key):
    meta = json.load(open(os.path.join(ROOT, 'seeded', d, 'meta.json')))
    need = meta.get('needs_to_manifest', '').replace('\n', ' ').replace('|', '/')
    need = need[:150] + ('…' if len(need) > 150 else '')
    r = res.get(d, {})
    owner = meta['property']
    caught = ['%s `%s`' % (c, s) for c, (v, s) in sorted(r.items(), key=lambda kv: (kv[0] != owner, kv[0])) if v == 'DETECTED']
    missed = [c for c, (v, s) in sorted(r.items()) if v != 'DETECTED']
    cell = '; '.join(caught) if caught else '**not caught**'
    if missed:
        cell += ' (quick tier of %s: no report)' % ', '.join(missed)
    rows.append('| %s | %s | %s |' % (d, need, cell))
print('| change | what it needs to manifest (short) | caught by (signature of the first report) |')
print('|---|---|---|')
print('\n'.join(rows))
n = len(rows); nc = sum(1 for r in rows if '**not caught**' not in r)
print('\n%d seeded changes, %d reported by at least one check.' % (n, nc), file=sys.stderr)
