#!/bin/bash
# usage: with_patch.sh <patch.diff> <command...> : apply patch to /repo, run command, always revert
set -u
P=$1; shift
cd /repo || exit 9
if ! git diff --quiet; then echo "/repo dirty, refusing"; exit 9; fi
if ! git apply "$P"; then echo "PATCH DOES NOT APPLY: $P"; exit 9; fi
( cd /verif && "$@" ); rc=$?
git -C /repo checkout -- . ; git -C /repo clean -fdq -- src
exit $rc
