/* pctrace <dumpdir|-> <victim> <args...> : single-steps the victim between SIGUSR1 markers and prints, per marked
 * segment, the number of instructions executed and an FNV-1a hash of the RIP sequence.  With a dump directory the RIP
 * sequence of every segment is also written to <dumpdir>/seg<N>.bin (8 bytes per step). */
#define _GNU_SOURCE
#include <stdio.h>
#include <stdlib.h>
#include <string.h>
#include <unistd.h>
#include <signal.h>
#include <stdint.h>
#include <stddef.h>
#include <sys/ptrace.h>
#include <sys/wait.h>
#include <sys/user.h>
#include <sys/personality.h>

int main(int argc, char **argv) {
  if (argc < 3) { fprintf(stderr, "usage\n"); return 2; }
  const char *dump = strcmp(argv[1], "-") ? argv[1] : NULL;
  pid_t pid = fork();
  if (pid == 0) {
    personality(ADDR_NO_RANDOMIZE);
    ptrace(PTRACE_TRACEME, 0, 0, 0);
    execv(argv[2], argv + 2);
    perror("exec"); _exit(127);
  }
  int st; waitpid(pid, &st, 0);
  int in = 0, seg = 0; uint64_t h = 0, n = 0; FILE *f = NULL;
  for (;;) {
    long r = in ? ptrace(PTRACE_SINGLESTEP, pid, 0, 0) : ptrace(PTRACE_CONT, pid, 0, 0);
    if (r < 0) break;
    if (waitpid(pid, &st, 0) < 0) break;
    if (WIFEXITED(st)) { printf("exit %d\n", WEXITSTATUS(st)); break; }
    if (WIFSIGNALED(st)) { printf("killed %d\n", WTERMSIG(st)); break; }
    int sig = WSTOPSIG(st);
    if (sig == SIGUSR1) {
      if (!in) { in = 1; h = 1469598103934665603ULL; n = 0;
        if (dump) { char nm[512]; snprintf(nm, sizeof nm, "%s/seg%d.bin", dump, seg); f = fopen(nm, "wb"); } }
      else { in = 0; printf("seg %d steps %lu hash %016lx\n", seg++, (unsigned long)n, (unsigned long)h); if (f) { fclose(f); f = NULL; } }
      continue;
    }
    if (in && sig == SIGTRAP) {
      long rip = ptrace(PTRACE_PEEKUSER, pid, offsetof(struct user_regs_struct, rip), 0);
      h = (h ^ (uint64_t)rip) * 1099511628211ULL; n++;
      if (f) fwrite(&rip, 8, 1, f);
    } else if (sig != SIGTRAP) {
      /* forward any other signal */
      ptrace(in ? PTRACE_SINGLESTEP : PTRACE_CONT, pid, 0, sig);
    }
  }
  fflush(stdout);
  return 0;
}
